/* Contracts for the per-thread futex semaphore (C12, C15), on redeclarations. */
#ifndef VP_CONTRACTS_SEM_H_
#define VP_CONTRACTS_SEM_H_
#include "vp_sem.h"
#include "c_time.h"

#define VP_SEM_IS(s) ((s) != NULL && __CPROVER_rw_ok ((s), sizeof (*(s))) && (nsync_atomic_uint32_ *) (s) == vp_reg.sem_word)
#define VP_S_FIELDS vp_s.taken, vp_s.posted, vp_s.last_load_valid, vp_s.last_load, vp_s.futex_timedout, vp_s.waits, vp_s.wakes, \
	vp_s.wake_after_post, vp_s.reads_at_timeout, vp_clk.valid, vp_clk.last, vp_clk.reads
/* deadline <= clock reading, lexicographic on normalised values */
#define VP_TIME_LE(a,b) ((a).tv_sec < (b).tv_sec || ((a).tv_sec == (b).tv_sec && (a).tv_nsec <= (b).tv_nsec))

/* "a wait never returns success without a post": success = exactly one decrement of a positive count */
void nsync_mu_semaphore_p (nsync_semaphore *s)
__CPROVER_requires (VP_SEM_IS (s) && vp_s.role == 0)
__CPROVER_ensures (vp_s.taken == __CPROVER_old (vp_s.taken) + 1u)
__CPROVER_assigns (VP_S_FIELDS, *(uint32_t *) s, vp_errno);

int nsync_mu_semaphore_p_with_deadline (nsync_semaphore *s, nsync_time abs_deadline)
__CPROVER_requires (VP_SEM_IS (s) && vp_s.role == 0 && VP_NORM (abs_deadline))
__CPROVER_ensures (__CPROVER_return_value == 0 || __CPROVER_return_value == ETIMEDOUT)
__CPROVER_ensures (__CPROVER_return_value != 0 || vp_s.taken == __CPROVER_old (vp_s.taken) + 1u)
/* "ETIMEDOUT only at or after its deadline": the kernel reported a timeout AND a clock reading taken afterwards has reached the deadline */
__CPROVER_ensures (__CPROVER_return_value != ETIMEDOUT ||
		   (vp_s.taken == __CPROVER_old (vp_s.taken) && vp_s.futex_timedout && vp_clk.reads > vp_s.reads_at_timeout &&
		    vp_clk.valid && VP_TIME_LE (abs_deadline, vp_clk.last)))
__CPROVER_assigns (VP_S_FIELDS, *(uint32_t *) s, vp_errno);

/* V: increment with release order, THEN wake */
void nsync_mu_semaphore_v (nsync_semaphore *s)
__CPROVER_requires (VP_SEM_IS (s) && vp_s.role == 1 && vp_s.posted == 0 && vp_s.wakes == 0)
__CPROVER_ensures (vp_s.posted == 1u && vp_s.wakes == 1u && vp_s.wake_after_post)
__CPROVER_assigns (VP_S_FIELDS, *(uint32_t *) s, vp_errno);

#endif
