/* Ghost-level contracts for the functions that touch the mutex word
   (C01, C02, C03, C05, C13, C14), attached to redeclarations.  The word-level
   guarantee G is asserted by the hooks behind ATM_* (rg/vp_rg.c); these
   contracts say what each function does to the ghost of the calling thread. */
#ifndef VP_CONTRACTS_MU_H_
#define VP_CONTRACTS_MU_H_
#include "vp_rg.h"

/* What the proofs need of the two lock_type tables (semantic, not literal):
   the real initialisers of common.c are shown to satisfy it by a separate
   obligation on the unmodified common.c (harness/mu/lock_types.c). */
#define VP_WTYPE_OK(t) ( \
	(t)->add_to_acquire == MU_WLOCK && \
	((t)->zero_to_acquire & MU_ANY_LOCK) == MU_ANY_LOCK &&       /* C01: writer needs no holder at all */ \
	((t)->zero_to_acquire & MU_LONG_WAIT) != 0 &&                /* C14 */ \
	((t)->zero_to_acquire & ~(MU_ANY_LOCK | MU_LONG_WAIT | MU_WRITER_WAITING)) == 0 && \
	(t)->held_if_non_zero == MU_WLOCK && \
	((t)->set_when_waiting & MU_WAITING) != 0 &&                 /* C02 */ \
	((t)->set_when_waiting & ~(MU_WAITING | MU_WRITER_WAITING)) == 0 && \
	((t)->clear_on_acquire & ~MU_WRITER_WAITING) == 0 && \
	(t)->clear_on_uncontended_release == MU_ALL_FALSE)            /* C06: a writer's release clears MU_ALL_FALSE */
#define VP_RTYPE_OK(t) ( \
	(t)->add_to_acquire == MU_RLOCK && \
	((t)->zero_to_acquire & MU_WLOCK) != 0 &&                    /* C01: reader needs no writer */ \
	((t)->zero_to_acquire & MU_LONG_WAIT) != 0 &&                /* C14 */ \
	((t)->zero_to_acquire & MU_WRITER_WAITING) != 0 &&           /* C14 */ \
	((t)->zero_to_acquire & ~(MU_WLOCK | MU_LONG_WAIT | MU_WRITER_WAITING)) == 0 && \
	(t)->held_if_non_zero == MU_RLOCK_FIELD && \
	((t)->set_when_waiting & MU_WAITING) != 0 && \
	((t)->set_when_waiting & ~(MU_WAITING | MU_WRITER_WAITING)) == 0 && \
	(t)->clear_on_acquire == 0 && \
	(t)->clear_on_uncontended_release == 0)
#define VP_TYPES_OK() (nsync_writer_type_ != NULL && nsync_reader_type_ != NULL && \
	nsync_writer_type_ != nsync_reader_type_ && \
	VP_WTYPE_OK (nsync_writer_type_) && VP_RTYPE_OK (nsync_reader_type_))

/* ghost fields a step on the mutex word may write */
#ifdef VP_G_WHOLE
#define VP_G_STEP vp_g
#define VP_G_LOCK vp_g
#define VP_G_ALL vp_g
#else
#define VP_G_STEP vp_g.hold, vp_g.spin, vp_g.waited, vp_g.dead, vp_g.set_desig, vp_g.released_with_desig, vp_g.longw_set, vp_g.enq_long, vp_g.enq_count, vp_g.last_new
/* ... plus those written through the waiting flag and the semaphore stubs */
#define VP_G_LOCK VP_G_STEP, vp_g.queued, vp_g.p_calls      /* what an acquisition (possibly sleeping) writes */
#define VP_G_ALL VP_G_STEP, vp_g.queued, vp_g.p_calls, vp_g.v_calls, vp_g.cond_evals, vp_g.last_cond, vp_g.last_sem_outcome
#endif

/* everything a release that may run nsync_mu_unlock_slow_ writes (it wakes waiters) */
#define VP_WK_FIELDS_ vp_wk.cleared, vp_wk.posted, vp_wk.pending, vp_wk.last_cleared
#define VP_UNLOCK_FRAME VP_G_ALL, VP_FW_DATA, vp_cvg.spin, VP_WK_FIELDS_

#define VP_IS_LTYPE(t) ((t) == nsync_writer_type_ || (t) == nsync_reader_type_)
#define VP_HOLD_OF(t) ((t) == nsync_writer_type_ ? VP_WRITER : VP_READER)

/* this thread owns nothing of the mutex and the mutex is the registered one */
#define VP_MU_IS(mu) ((mu) != NULL && __CPROVER_rw_ok ((mu), sizeof (*(mu))) && &(mu)->word == vp_reg.mu_word)
#define VP_W_IS(w) ((w) != NULL && __CPROVER_rw_ok ((w), sizeof (*(w))) && &(w)->nw.waiting == vp_reg.my_waiting)
#define VP_IDLE() (vp_g.hold == VP_NONE && !vp_g.spin && !vp_g.dead)

unsigned nsync_spin_delay_ (unsigned attempts)
__CPROVER_ensures (__CPROVER_return_value <= attempts + 1u || __CPROVER_return_value == attempts)
__CPROVER_assigns ();

void nsync_mu_lock_slow_ (nsync_mu *mu, waiter *w, uint32_t clear, lock_type *l_type)
__CPROVER_requires (VP_TYPES_OK () && VP_IS_LTYPE (l_type))
__CPROVER_requires (VP_MU_IS (mu) && VP_W_IS (w))
__CPROVER_requires (VP_IDLE () && !vp_g.queued)
__CPROVER_requires ((clear == 0 && !vp_g.waited) || (clear == MU_DESIG_WAKER && vp_g.waited))
__CPROVER_ensures (vp_g.hold == VP_HOLD_OF (l_type) && !vp_g.spin && !vp_g.dead && !vp_g.waited && !vp_g.queued)
__CPROVER_assigns (VP_G_LOCK, VP_FW_DATA, mu->word, mu->waiters, w->cv_mu, w->cond, w->l_type, w->nw.waiting);

int nsync_mu_trylock (nsync_mu *mu)
__CPROVER_requires (VP_TYPES_OK () && VP_MU_IS (mu) && VP_IDLE () && !vp_g.waited && !vp_g.queued)
__CPROVER_ensures (vp_g.hold == (__CPROVER_return_value ? VP_WRITER : VP_NONE) && !vp_g.spin)
__CPROVER_ensures (vp_g.p_calls == __CPROVER_old (vp_g.p_calls))            /* C02: never blocks */
__CPROVER_assigns (VP_G_STEP, mu->word);

int nsync_mu_rtrylock (nsync_mu *mu)
__CPROVER_requires (VP_TYPES_OK () && VP_MU_IS (mu) && VP_IDLE () && !vp_g.waited && !vp_g.queued)
__CPROVER_ensures (vp_g.hold == (__CPROVER_return_value ? VP_READER : VP_NONE) && !vp_g.spin)
__CPROVER_ensures (vp_g.p_calls == __CPROVER_old (vp_g.p_calls))
__CPROVER_assigns (VP_G_STEP, mu->word);

void nsync_mu_lock (nsync_mu *mu)
__CPROVER_requires (VP_TYPES_OK () && VP_MU_IS (mu) && VP_IDLE () && !vp_g.waited && !vp_g.queued)
__CPROVER_ensures (vp_g.hold == VP_WRITER && !vp_g.spin && !vp_g.dead)
__CPROVER_assigns (VP_G_LOCK, VP_FW_DATA, vp_my_w, vp_reg.my_waiting, mu->word, mu->waiters);

void nsync_mu_rlock (nsync_mu *mu)
__CPROVER_requires (VP_TYPES_OK () && VP_MU_IS (mu) && VP_IDLE () && !vp_g.waited && !vp_g.queued)
__CPROVER_ensures (vp_g.hold == VP_READER && !vp_g.spin && !vp_g.dead)
__CPROVER_assigns (VP_G_LOCK, VP_FW_DATA, vp_my_w, vp_reg.my_waiting, mu->word, mu->waiters);

/* this thread's waiter record: fresh, and its waiting flag is the one under the waiting-flag protocol */
waiter *nsync_waiter_new_ (void)
__CPROVER_ensures (__CPROVER_return_value == &vp_my_w)
__CPROVER_ensures (vp_reg.my_waiting == &vp_my_w.nw.waiting)
__CPROVER_assigns (vp_reg.my_waiting);

void nsync_waiter_free_ (waiter *w)
__CPROVER_requires (w != NULL)
__CPROVER_ensures (1)
__CPROVER_assigns ();

/* release functions; C13: with vp_g.release_ctx set, the hooks mark the mutex dead at the step after
   which this thread holds neither the lock nor the spinlock, and assert that it is not touched again */
#define VP_PRE_UNLOCK_SLOW(mu, l_type) (VP_TYPES_OK () && VP_IS_LTYPE (l_type) && VP_MU_IS (mu) && vp_g.hold == VP_HOLD_OF (l_type) && !vp_g.spin && !vp_g.dead)
#define VP_POST_UNLOCK_SLOW_A() (vp_g.hold == VP_NONE && !vp_g.spin && vp_g.dead == (vp_g.release_ctx ? 1 : 0))
void nsync_mu_unlock_slow_ (nsync_mu *mu, lock_type *l_type)
__CPROVER_requires (VP_PRE_UNLOCK_SLOW (mu, l_type))
__CPROVER_ensures (VP_POST_UNLOCK_SLOW_A ())
__CPROVER_ensures (vp_g.queued == __CPROVER_old (vp_g.queued) && vp_g.waited == __CPROVER_old (vp_g.waited))
__CPROVER_ensures (vp_g.p_calls == __CPROVER_old (vp_g.p_calls) && vp_g.last_sem_outcome == __CPROVER_old (vp_g.last_sem_outcome))
__CPROVER_ensures (vp_cvg.spin == __CPROVER_old (vp_cvg.spin) && vp_wk.pending == __CPROVER_old (vp_wk.pending))
/* C02 H1: if the release leaves the MU_DESIG_WAKER this thread set, it has woken at least one waiter */
__CPROVER_ensures (!vp_g.released_with_desig || vp_g.v_calls != __CPROVER_old (vp_g.v_calls))
__CPROVER_assigns (VP_UNLOCK_FRAME, mu->word, mu->waiters);

/* (C04: inside a cv wait the mutex is released only after the waiter is on the cv's queue) */
void nsync_mu_unlock (nsync_mu *mu)
__CPROVER_requires (VP_TYPES_OK () && VP_MU_IS (mu) && vp_g.hold == VP_WRITER && !vp_g.spin && !vp_g.dead)
__CPROVER_requires (!vp_cvg.in_wait || vp_cvg.enq_done)
__CPROVER_ensures (vp_g.hold == VP_NONE && !vp_g.spin && vp_g.dead == (vp_g.release_ctx ? 1 : 0))
__CPROVER_ensures (vp_g.queued == __CPROVER_old (vp_g.queued) && vp_g.waited == __CPROVER_old (vp_g.waited))
__CPROVER_ensures (vp_g.p_calls == __CPROVER_old (vp_g.p_calls) && vp_g.last_sem_outcome == __CPROVER_old (vp_g.last_sem_outcome))
__CPROVER_ensures (vp_cvg.spin == __CPROVER_old (vp_cvg.spin) && vp_wk.pending == __CPROVER_old (vp_wk.pending))
__CPROVER_assigns (VP_UNLOCK_FRAME, mu->word, mu->waiters);

void nsync_mu_runlock (nsync_mu *mu)
__CPROVER_requires (VP_TYPES_OK () && VP_MU_IS (mu) && vp_g.hold == VP_READER && !vp_g.spin && !vp_g.dead)
__CPROVER_requires (!vp_cvg.in_wait || vp_cvg.enq_done)
__CPROVER_ensures (vp_g.hold == VP_NONE && !vp_g.spin && vp_g.dead == (vp_g.release_ctx ? 1 : 0))
__CPROVER_ensures (vp_g.queued == __CPROVER_old (vp_g.queued) && vp_g.waited == __CPROVER_old (vp_g.waited))
__CPROVER_ensures (vp_g.p_calls == __CPROVER_old (vp_g.p_calls) && vp_g.last_sem_outcome == __CPROVER_old (vp_g.last_sem_outcome))
__CPROVER_ensures (vp_cvg.spin == __CPROVER_old (vp_cvg.spin) && vp_wk.pending == __CPROVER_old (vp_wk.pending))
__CPROVER_assigns (VP_UNLOCK_FRAME, mu->word, mu->waiters);

/* Spin until (*w & test) == 0, then *w = (*w | set) & ~clear with acquire order.  On the mutex word it is used
   only to take the queue spinlock (possibly announcing a waiter): the caller must not own the spinlock. */
uint32_t nsync_spin_test_and_set_ (nsync_atomic_uint32_ *w, uint32_t test, uint32_t set, uint32_t clear)
__CPROVER_requires (w != NULL && __CPROVER_rw_ok (w, sizeof (*w)))
__CPROVER_requires (w != vp_reg.mu_word ||
		    ((test & MU_SPINLOCK) != 0 && (set & MU_SPINLOCK) != 0 && !vp_g.spin && !vp_g.dead &&
		     (set & ~(MU_SPINLOCK | MU_WAITING | MU_CONDITION)) == 0 && (clear & ~MU_ALL_FALSE) == 0 &&
		     (test & ~MU_SPINLOCK) == 0 && !(vp_g.hold == VP_NONE && vp_g.waited) &&
		     (!vp_g.observer || (set == MU_SPINLOCK && clear == 0)) &&
		     /* C02/C06: a call that announces a waiter voids the 'all conditions false' hint; the other callers are the scanning
		        thread of nsync_mu_unlock_slow_ (it has set MU_DESIG_WAKER) and observers */
		     ((set & MU_WAITING) != 0 ? (clear & MU_ALL_FALSE) != 0 : (vp_g.observer || vp_g.set_desig))))
__CPROVER_requires (w != vp_reg.cv_word ||
		    ((test & CV_SPINLOCK) != 0 && (set & CV_SPINLOCK) != 0 && (set & ~(CV_SPINLOCK | CV_NON_EMPTY)) == 0 && clear == 0 && !vp_cvg.spin))
__CPROVER_ensures ((__CPROVER_return_value & test) == 0)
__CPROVER_ensures (w == vp_reg.mu_word || (vp_g.spin == __CPROVER_old (vp_g.spin) && vp_g.enq_count == __CPROVER_old (vp_g.enq_count) &&
					    vp_g.enq_long == __CPROVER_old (vp_g.enq_long) && vp_g.last_new == __CPROVER_old (vp_g.last_new)))
__CPROVER_ensures (w == vp_reg.cv_word || vp_cvg.spin == __CPROVER_old (vp_cvg.spin))
__CPROVER_ensures (w != vp_reg.cv_word || (vp_cvg.spin == 1 && (__CPROVER_return_value & ~CV_NON_EMPTY) == 0 && *w == ((__CPROVER_return_value | set) & ~clear)))
/* J (cv): with the spinlock free, CV_NON_EMPTY clear implies an empty queue; the caller now owns the spinlock and may rely on it */
__CPROVER_ensures (w != vp_reg.cv_word || (__CPROVER_return_value & CV_NON_EMPTY) != 0 || ((nsync_cv *) ((char *) w - offsetof (nsync_cv, word)))->waiters == NULL)
__CPROVER_ensures (w != vp_reg.mu_word ||
		   (vp_g.spin == 1 && !vp_g.dead && vp_g.hold == __CPROVER_old (vp_g.hold) && vp_g.waited == __CPROVER_old (vp_g.waited) &&
		    vp_g.queued == __CPROVER_old (vp_g.queued) && vp_g.set_desig == __CPROVER_old (vp_g.set_desig)))
__CPROVER_assigns (*w, vp_g.spin, vp_g.enq_count, vp_g.enq_long, vp_g.last_new, vp_cvg.spin);

void nsync_mu_unlock_without_wakeup (nsync_mu *mu)
__CPROVER_requires (VP_TYPES_OK () && VP_MU_IS (mu) && vp_g.hold == VP_WRITER && !vp_g.spin && !vp_g.dead)
__CPROVER_ensures (vp_g.hold == VP_NONE && !vp_g.spin && vp_g.dead == (vp_g.release_ctx ? 1 : 0))
__CPROVER_ensures (vp_g.queued == __CPROVER_old (vp_g.queued) && vp_g.waited == __CPROVER_old (vp_g.waited))
__CPROVER_ensures (vp_g.p_calls == __CPROVER_old (vp_g.p_calls) && vp_g.last_sem_outcome == __CPROVER_old (vp_g.last_sem_outcome))
__CPROVER_ensures (vp_cvg.spin == __CPROVER_old (vp_cvg.spin) && vp_wk.pending == __CPROVER_old (vp_wk.pending))
__CPROVER_assigns (VP_UNLOCK_FRAME, mu->word, mu->waiters);

/* queue-link helper, abstracted in word-level proofs (its exact behaviour on the links is proved under C06/C17) */
nsync_dll_list_ nsync_remove_from_mu_queue_ (nsync_dll_list_ mu_queue, nsync_dll_element_ *e)
__CPROVER_requires (e != NULL)
__CPROVER_ensures (1)
__CPROVER_assigns ();

/* queue-link helper, abstracted in word-level proofs: no effect on the word or on this thread's ghost */
void nsync_maybe_merge_conditions_ (nsync_dll_element_ *p, nsync_dll_element_ *n)
__CPROVER_requires (1)
__CPROVER_ensures (1)
__CPROVER_assigns ();

/* sleeps on the thread's semaphore until posted, the deadline, or the note: touches no mutex word */
int nsync_sem_wait_with_cancel_ (waiter *w, nsync_time abs_deadline, nsync_note cancel_note)
__CPROVER_requires (w != NULL)
__CPROVER_ensures (__CPROVER_return_value == 0 || __CPROVER_return_value == ETIMEDOUT || __CPROVER_return_value == ECANCELED)
__CPROVER_ensures (vp_g.p_calls == __CPROVER_old (vp_g.p_calls) + 1u && vp_g.last_sem_outcome == __CPROVER_return_value)
__CPROVER_assigns (vp_g.p_calls, vp_g.last_sem_outcome);

#define VP_PRE_MU_WAIT(mu, condition) (VP_TYPES_OK () && VP_MU_IS (mu) && (vp_g.hold == VP_READER || vp_g.hold == VP_WRITER) && \
	!vp_g.spin && !vp_g.dead && !vp_g.waited && !vp_g.queued && !vp_g.observer && !vp_g.release_ctx && \
	((condition) == NULL || (condition) == vp_condition))
#define VP_POST_MU_WAIT_HOLD(old_hold) (vp_g.hold == (old_hold) && !vp_g.spin && !vp_g.dead)
#define VP_POST_MU_WAIT_RESULT(ret, condition) (((ret) == 0 || (ret) == ETIMEDOUT || (ret) == ECANCELED) && \
	(((ret) == 0) == ((condition) == NULL || vp_g.last_cond != 0)) && \
	((ret) == 0 || (ret) == vp_g.last_sem_outcome))
/* C01/C05: returns holding the mutex in the mode in which it was held on entry; 0 exactly when the condition's last
   evaluation (made by this thread, holding the mutex, as the last thing before returning) was true; a non-zero result is the
   outcome of this call's own timed / cancellable sleep.  C06: the condition is only evaluated with the mutex held. */
int nsync_mu_wait_with_deadline (nsync_mu *mu, int (*condition) (const void *condition_arg), const void *condition_arg,
				 int (*condition_arg_eq) (const void *a, const void *b), nsync_time abs_deadline, nsync_note cancel_note)
__CPROVER_requires (VP_PRE_MU_WAIT (mu, condition))
__CPROVER_ensures (VP_POST_MU_WAIT_HOLD (__CPROVER_old (vp_g.hold)))
__CPROVER_ensures (VP_POST_MU_WAIT_RESULT (__CPROVER_return_value, condition))
__CPROVER_assigns (VP_UNLOCK_FRAME, vp_my_w, vp_reg.my_waiting, mu->word, mu->waiters);

#endif
