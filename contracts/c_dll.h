/* Pointer-level contracts with exact frames for the ten functions of
   internal/dll.c (C17), attached to redeclarations.  They speak only about the
   neighbourhood an operation touches, so they hold for lists of any length. */
#ifndef VP_CONTRACTS_DLL_H_
#define VP_CONTRACTS_DLL_H_
#include "nsync_cpp.h"
#include "platform.h"
#include "compiler.h"
#include "cputype.h"
#include "dll.h"
#include "vp_native.h"

/* e is linked into a ring: both neighbours point back at it */
#define VP_LINKED(e) ((e)->next->prev == (e) && (e)->prev->next == (e))

void nsync_dll_init_ (nsync_dll_element_ *e, void *container)
__CPROVER_requires (__CPROVER_is_fresh (e, sizeof (*e)))
__CPROVER_ensures (e->next == e && e->prev == e && e->container == container)
__CPROVER_assigns (e->next, e->prev, e->container);

int nsync_dll_is_empty_ (nsync_dll_list_ list)
__CPROVER_ensures ((__CPROVER_return_value != 0) == (list == NULL))
__CPROVER_assigns ();

/* remove: neighbours become linked to each other, e becomes a self-linked
   singleton, the head moves back iff e was the last element. */
nsync_dll_list_ nsync_dll_remove_ (nsync_dll_list_ list, nsync_dll_element_ *e)
__CPROVER_requires (list != NULL && e != NULL && e->next != NULL && e->prev != NULL && VP_LINKED (e))
__CPROVER_requires (list->prev != NULL && list->next != NULL)
__CPROVER_requires (list != e || (list->prev == list) == (list->next == list))   /* ring of one is self-linked both ways */
__CPROVER_ensures (e->next == e && e->prev == e)
__CPROVER_ensures (__CPROVER_old (e->prev) == e ||
		   (__CPROVER_old (e->prev)->next == __CPROVER_old (e->next) &&
		    __CPROVER_old (e->next)->prev == __CPROVER_old (e->prev)))
__CPROVER_ensures (__CPROVER_return_value ==
		   (list != e ? list : (__CPROVER_old (e->prev) == e ? (nsync_dll_list_) NULL : __CPROVER_old (e->prev))))
__CPROVER_assigns (e->next, e->prev, e->next->prev, e->prev->next);

/* splice_after: ring of n is inserted after p */
void nsync_dll_splice_after_ (nsync_dll_element_ *p, nsync_dll_element_ *n)
__CPROVER_requires (p != NULL && n != NULL && p->next != NULL && n->prev != NULL)
__CPROVER_requires (p->next->prev == p && n->prev->next == n)
__CPROVER_requires (p != n && p->next != n && n->prev != p)   /* not the same ring */
__CPROVER_ensures (p->next == n && n->prev == p)
__CPROVER_ensures (__CPROVER_old (n->prev)->next == __CPROVER_old (p->next) &&
		   __CPROVER_old (p->next)->prev == __CPROVER_old (n->prev))
__CPROVER_assigns (p->next, n->prev, n->prev->next, p->next->prev);

nsync_dll_list_ nsync_dll_make_first_in_list_ (nsync_dll_list_ list, nsync_dll_element_ *e)
__CPROVER_requires (e == NULL || (e->prev != NULL && e->prev->next == e))
__CPROVER_requires (e == NULL || list == NULL || (list->next != NULL && list->next->prev == list &&
						   list != e && list->next != e && e->prev != list))
__CPROVER_ensures (__CPROVER_return_value == (e == NULL ? list : list == NULL ? __CPROVER_old (e->prev) : list))
__CPROVER_ensures (e == NULL || list == NULL ||
		   (list->next == e && e->prev == list &&
		    __CPROVER_old (e->prev)->next == __CPROVER_old (list->next) &&
		    __CPROVER_old (list->next)->prev == __CPROVER_old (e->prev)))
__CPROVER_assigns (e != NULL && list != NULL: list->next, e->prev, e->prev->next, list->next->prev);

/* make_last: e (and the ring it is in, ending with e) goes to the end; result is e */
nsync_dll_list_ nsync_dll_make_last_in_list_ (nsync_dll_list_ list, nsync_dll_element_ *e)
__CPROVER_requires (e == NULL || (e->next != NULL && e->next->prev == e))
__CPROVER_requires (e == NULL || list == NULL || (list->next != NULL && list->next->prev == list &&
						   list != e && list != e->next && list->next != e->next))
__CPROVER_ensures (__CPROVER_return_value == (e == NULL ? list : e))
__CPROVER_ensures (e == NULL || list == NULL ||
		   (list->next == __CPROVER_old (e->next) && __CPROVER_old (e->next)->prev == list &&
		    e->next == __CPROVER_old (list->next) && __CPROVER_old (list->next)->prev == e))
__CPROVER_assigns (e != NULL && list != NULL: list->next, e->next->prev, e->next, list->next->prev);

nsync_dll_element_ *nsync_dll_first_ (nsync_dll_list_ list)
__CPROVER_ensures (__CPROVER_return_value == (list == NULL ? (nsync_dll_element_ *) NULL : list->next))
__CPROVER_assigns ();

nsync_dll_element_ *nsync_dll_last_ (nsync_dll_list_ list)
__CPROVER_ensures (__CPROVER_return_value == list)
__CPROVER_assigns ();

nsync_dll_element_ *nsync_dll_next_ (nsync_dll_list_ list, nsync_dll_element_ *e)
__CPROVER_requires (e != NULL)
__CPROVER_ensures (__CPROVER_return_value == (e == list ? (nsync_dll_element_ *) NULL : e->next))
__CPROVER_assigns ();

nsync_dll_element_ *nsync_dll_prev_ (nsync_dll_list_ list, nsync_dll_element_ *e)
__CPROVER_requires (e != NULL && list != NULL)
__CPROVER_ensures (__CPROVER_return_value == (e == list->next ? (nsync_dll_element_ *) NULL : e->prev))
__CPROVER_assigns ();

#endif
