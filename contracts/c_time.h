/* Contracts for the nsync_time functions (C18), attached to redeclarations.
   The postconditions are the mixed-radix (carry / borrow) form of arithmetic on
   sec*1e9+nsec; lemmas/time_lia.py proves with z3 that this form is exactly
   integer arithmetic on that quantity.  Each clause is a macro so that native
   replay can evaluate the same text on the real code. */
#ifndef VP_CONTRACTS_TIME_H_
#define VP_CONTRACTS_TIME_H_
#include "nsync_cpp.h"
#include "platform.h"
#include "compiler.h"
#include "cputype.h"
#include "nsync_time.h"
#include "vp_native.h"

#define VP_NS 1000000000L
#define VP_NORM(t) ((t).tv_nsec >= 0 && (t).tv_nsec < VP_NS)
#define VP_SEC_MAX ((time_t) 0x7fffffffffffffffL)
#define VP_SEC_MIN (-VP_SEC_MAX - 1)

/* a.sec + b.sec + 1 representable (the "+1" is the carry) */
#define VP_ADD_OK(a,b) ((b).tv_sec >= 0 ? (a).tv_sec <= VP_SEC_MAX - (b).tv_sec - 1 \
                                        : (a).tv_sec >= VP_SEC_MIN - (b).tv_sec)
/* a.sec - b.sec - 1 representable (the "-1" is the borrow) */
#define VP_SUB_OK(a,b) ((b).tv_sec >= 0 ? (a).tv_sec >= VP_SEC_MIN + (b).tv_sec + 1 \
                                        : (a).tv_sec <= VP_SEC_MAX + (b).tv_sec)

#define VP_PRE_time_add(a,b) (VP_NORM (a) && VP_NORM (b) && VP_ADD_OK (a, b))
#define VP_POST_time_add(a,b,r) (VP_NORM (r) && \
	((a).tv_nsec + (b).tv_nsec < VP_NS \
	 ? ((r).tv_sec == (a).tv_sec + (b).tv_sec && (r).tv_nsec == (a).tv_nsec + (b).tv_nsec) \
	 : ((r).tv_sec == (a).tv_sec + (b).tv_sec + 1 && (r).tv_nsec == (a).tv_nsec + (b).tv_nsec - VP_NS)))

#define VP_PRE_time_sub(a,b) (VP_NORM (a) && VP_NORM (b) && VP_SUB_OK (a, b))
#define VP_POST_time_sub(a,b,r) (VP_NORM (r) && \
	((a).tv_nsec >= (b).tv_nsec \
	 ? ((r).tv_sec == (a).tv_sec - (b).tv_sec && (r).tv_nsec == (a).tv_nsec - (b).tv_nsec) \
	 : ((r).tv_sec == (a).tv_sec - (b).tv_sec - 1 && (r).tv_nsec == (a).tv_nsec + VP_NS - (b).tv_nsec)))

/* lexicographic order on (sec, nsec); on normalised values this is the order of
   sec*1e9+nsec (z3 lemma) */
#define VP_LT(a,b) ((a).tv_sec < (b).tv_sec || ((a).tv_sec == (b).tv_sec && (a).tv_nsec < (b).tv_nsec))
#define VP_POST_time_cmp(a,b,r) ((r) == (VP_LT (a, b) ? -1 : VP_LT (b, a) ? 1 : 0))

#define VP_POST_time_s_ns(s,ns,r) ((r).tv_sec == (s) && (r).tv_nsec == (long) (ns))

/* ghost witnesses for nsync_time_ms / nsync_time_us: quotient and remainder.
   Every 32-bit argument has exactly one such pair (Euclidean division), so the
   precondition excludes no argument. */
extern unsigned vp_q, vp_r;
#define VP_PRE_time_ms(ms) (vp_r < 1000u && vp_q <= 4294967u && (vp_q < 4294967u || vp_r <= 295u) && (ms) == 1000u * vp_q + vp_r)
#define VP_POST_time_ms(ms,r) ((r).tv_sec == (time_t) vp_q && (r).tv_nsec == 1000000L * (long) vp_r)
#define VP_PRE_time_us(us) (vp_r < 1000000u && vp_q <= 4294u && (vp_q < 4294u || vp_r <= 967295u) && (us) == 1000000u * vp_q + vp_r)
#define VP_POST_time_us(us,r) ((r).tv_sec == (time_t) vp_q && (r).tv_nsec == 1000L * (long) vp_r)

nsync_time nsync_time_add (nsync_time a, nsync_time b)
__CPROVER_requires (VP_PRE_time_add (a, b))
__CPROVER_ensures (VP_POST_time_add (a, b, __CPROVER_return_value))
__CPROVER_assigns ();

nsync_time nsync_time_sub (nsync_time a, nsync_time b)
__CPROVER_requires (VP_PRE_time_sub (a, b))
__CPROVER_ensures (VP_POST_time_sub (a, b, __CPROVER_return_value))
__CPROVER_assigns ();

int nsync_time_cmp (nsync_time a, nsync_time b)
__CPROVER_ensures (VP_POST_time_cmp (a, b, __CPROVER_return_value))
__CPROVER_assigns ();

nsync_time nsync_time_s_ns (time_t s, unsigned ns)
__CPROVER_ensures (VP_POST_time_s_ns (s, ns, __CPROVER_return_value))
__CPROVER_assigns ();

nsync_time nsync_time_ms (unsigned ms)
__CPROVER_requires (VP_PRE_time_ms (ms))
__CPROVER_ensures (VP_POST_time_ms (ms, __CPROVER_return_value))
__CPROVER_assigns ();

nsync_time nsync_time_us (unsigned us)
__CPROVER_requires (VP_PRE_time_us (us))
__CPROVER_ensures (VP_POST_time_us (us, __CPROVER_return_value))
__CPROVER_assigns ();

#endif
