"""C11 — nsync_wait_n reports a ready object, or a real timeout, and cleans up."""
from props.shared import wait_groups, cv_queue_groups

ID = "C11"
LEVEL = "proof"
EXPLANATION = (
    "The real nsync_wait_n of internal/wait.c enforced against a contract over the INTERFACE contract of the waitables "
    "(public/nsync_waiter.h): stub ready_time / enqueue / dequeue / lock / unlock with arbitrary answers and ghost per-call bookkeeping "
    "instead of quantifiers. Obligations (hook assertions in the stubs + the postcondition, written from the statement): the initial "
    "poll visits the objects in order; an object ready on entry is reported at once without registering; a deadline not in the future "
    "returns count without waiting; registration visits the objects in order with an initialised record that posts this thread's "
    "semaphore and stops at the first refusal; the mutex is released once, only after registration was attempted on every object, "
    "and re-acquired exactly once iff released, after deregistration; every sleep is preceded by a poll of ALL objects, never happens "
    "once an object reports ready, and lasts until the earliest of the deadline and the objects' ready times; exactly the registered "
    "objects are deregistered, in order, with their own records; the result is the first object found no longer queued, and count only "
    "if the timed wait timed out at abs_deadline itself; the heap array is freed (cbmc pointer checks).")
ASSUMPTIONS = ["the three shipped implementations of the interface meet it: counter (C10 groups), note (C08 groups); the cv implementation (cv_ready_time, cv_enqueue, "
               "cv_dequeue) is checked here by the BOUNDED groups cvq.waitable.N0..N2 on the real queue: register behind 0..2 other waiters, another thread's complete "
               "signal / broadcast or nothing, poll, dequeue"]
NOT_DECIDED = ["count > 6 (harness array bound)"]
TRUSTED = []


def groups(tier):
    return wait_groups(tags=["C11", "C04"]) + [g for g in cv_queue_groups(tags=["C11", "C04"], tier=tier) if "waitable" in g.name]
