"""C14 — a blocked locker cannot be overtaken indefinitely."""
from props.shared import mu_groups, mu_lemmas

ID = "C14"
LEVEL = "proof"
EXPLANATION = (
    "Safety form of the statement ('once it has been woken and has lost the race a fixed number of times, threads that have not "
    "themselves waited can no longer acquire ahead of it'), as guarantee clauses checked at EVERY atomic step of every acquisition path "
    "of the real code under arbitrary interference: L1 a waiter that was woken LONG_WAIT_THRESHOLD times and lost sets MU_LONG_WAIT "
    "when it goes back to sleep (hook assertion + tagged loop-invariant clause of nsync_mu_lock_slow_: wait_count >= threshold => "
    "long_wait == MU_LONG_WAIT); L2 every acquiring transition of a thread that has not itself waited (ghost 'waited': it was queued "
    "and observed its wake-up) requires MU_LONG_WAIT clear, and for readers MU_WRITER_WAITING clear: fast paths of lock / rlock / "
    "trylock / rtrylock, lock_slow with clear == 0 (tagged invariant: its mask keeps both bits), the timeout re-acquisition of "
    "mu_wait.c, nsync_mu_wait_with_deadline; L3 MU_LONG_WAIT is cleared only by the acquiring step of a thread that has waited "
    "(no release path, no store, no fresh thread clears it). The real lock_type tables are shown to contain the bits (lock-type lemma).")
ASSUMPTIONS = ["the threshold is the code's LONG_WAIT_THRESHOLD (any finite value satisfies the statement)"]
NOT_DECIDED = ["the numeric bound on sleeps under an adversarial scheduler (needs a fairness model)",
               "nsync_mu_unlock_slow_ / cv wake_waiters release paths: their word transitions are checked under C01; they never acquire for a fresh thread"]
TRUSTED = []
PARALLEL = 12

W = ["mu.lock_slow", "mu.trylock", "mu.rtrylock", "mu.lock", "mu.rlock", "mu.try_acquire_after_timeout", "mu.wait_with_deadline",
     "mu.unlock", "mu.runlock", "mu.unlock_without_wakeup", "mu.release_spinlock", "mu.spin_test_and_set", "mu.unlock_slow"]


def groups(tier):
    return mu_groups(tags=["C14"], which=W, tier=tier) + mu_lemmas(tags=["C14"])
