"""C12 — the per-thread semaphore never loses a post."""
from props.shared import sem_groups
from vp.runner import Group

ID = "C12"
LEVEL = "proof"
EXPLANATION = (
    "The real platform/linux/src/nsync_semaphore_futex.c (textually included, unmodified) under contracts (contracts/c_sem.h): the "
    "count word is under a rely/guarantee protocol (others may post at every atomic step of the waiter; anything may happen at every "
    "step of a poster), the futex system call is an ASSUMED contract that may return 0 / EINTR / EAGAIN / ETIMEDOUT in any order and "
    "number (the 'injected early returns' of the quantifier, unboundedly many), loops closed by loop contracts. Proved for all count "
    "values, all deadlines, all kernel answers and all interference: P and timed P return success only after exactly one successful "
    "CAS i -> i-1 with i > 0 (never success without a post); the count only ever changes by +-1 by CAS; FUTEX_WAIT is called only with "
    "the value just loaded and only if it is 0 (so a post between load and sleep makes the kernel refuse to block); timed P returns "
    "ETIMEDOUT only if the kernel reported a timeout AND a clock reading taken afterwards has reached the deadline; V increments with "
    "release order and THEN wakes. Spec-level lemma: count = posts - successful waits >= 0.")
ASSUMPTIONS = ["'a post makes a pending or future wait return' is reduced to the protocol facts above plus the kernel's compare-and-block atomicity; "
               "the eventual return itself (liveness) is not decided",
               "one waiter per semaphore (it is the per-thread semaphore), fewer than 2^31-1 outstanding posts",
               "rely/guarantee soundness (paper argument), atomic steps sequentially consistent"]
NOT_DECIDED = ["eventual return of a wait after a post (liveness)"]
TRUSTED = []


def groups(tier):
    gs = sem_groups(tags=["C12", "C03"])
    gs.append(Group(name="sem.lemma_count", srcs=["harness/sem/sem_lemma.c"], entry="h_sem_lemma", no_dfcc=True, kind="lemma", min_obligations=2))
    return gs
