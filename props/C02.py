"""C02 — a released mutex is always handed on: no deadlock, no lost lock wake-up."""
from props.shared import mu_groups, mu_lemmas, cv_groups, mu_scan_groups

ID = "C02"
LEVEL = "other"
EXPLANATION = (
    "The statement is liveness ('every lock call eventually returns'): NOT decided by contracts. Decided, unbounded, on the real code "
    "under arbitrary interference: (a) nsync_mu_trylock and nsync_mu_rtrylock never block: their bodies are loop-free, call nothing but "
    "atomic steps, and their contracts show no semaphore wait was made; (b) the documented legal / illegal states of the mutex word "
    "(internal/common.h:103-135) as guarantee clauses checked at EVERY atomic step of every function under proof - i.e. who stays "
    "responsible for waking whom at each single step: H1a MU_DESIG_WAKER is set only by a lock holder in the very step that takes the "
    "queue spinlock; H2 a woken waiter clears MU_DESIG_WAKER in the step in which it acquires or goes back to sleep; H4 MU_WAITING and "
    "MU_CONDITION change only under the queue spinlock, and nsync_mu_unlock_slow_ (bounded body group) never clears MU_WAITING while waiters "
    "remain queued; H5 the sleep/wake handshake: a thread sleeps only after publishing waiting = 1 for its queued record, and wakers "
    "(wake_waiters, nsync_mu_unlock_slow_) clear that flag with release order BEFORE posting the semaphore; the spinlock is taken only "
    "when free and released only by its owner. H1 (the thread that set MU_DESIG_WAKER wakes a waiter or clears the bit again) is a "
    "postcondition of nsync_mu_unlock_slow_ (bounded body group: every loop unwound 4x quick / 6x thorough). H6 the thread that raised MU_LONG_WAIT clears it in the step in which it acquires; H7 whoever takes the queue spinlock to add a waiter (lock_slow, mu_wait, the cv-to-mutex transfer of wake_waiters) clears MU_ALL_FALSE, so that a reader's release does not skip the new waiter. Each clause is a necessary condition for hand-off, not a proof of it.")
LEVEL_TEXT = ("liveness (eventual return under fair scheduling, no starvation) is not decidable by function contracts; the safety core - the "
              "per-step responsibility rules of the word protocol and 'trylock never blocks' - is proved, hence level other")
ASSUMPTIONS = ["counting and binary semaphores are both covered by the abstract semaphore stub (no effect on any nsync word)"]
NOT_DECIDED = ["eventual return of nsync_mu_lock / nsync_mu_rlock under fair scheduling; starvation by barging (see C14)"]
TRUSTED = []
PARALLEL = 14


def groups(tier):
    t = ["C02"]
    return mu_groups(tags=t, tier=tier) + mu_lemmas(tags=t) + cv_groups(tags=t, which=["cv.wake_waiters"]) + mu_scan_groups(tags=t, tier=tier)
