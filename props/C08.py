"""C08 — a note is a one-way flag set by notify, by its deadline, or by an ancestor."""
from props.shared import note_groups, note_tree_groups, note_conc_groups

ID = "C08"
LEVEL = "other"
EXPLANATION = (
    "UNBOUNDED (contracts on the real internal/note.c, the 'notified' flag under rely/guarantee: G = the flag only ever goes 0 -> 1, by a "
    "release store made under that note's own lock; R = others may set it at any atomic step, nobody clears it; the notes' mutexes "
    "abstracted by the ghost contract of the mutex API): with 'notified' := flag set or expiry <= 0, nsync_note_notify returns only "
    "with the note notified; nsync_note_notified_deadline_ returns 0 only if the note is notified (flag seen with acquire order, expiry "
    "<= 0, or expiry reached by the clock and the lazy notification performed) and otherwise the expiry, which is then still ahead of "
    "the clock; nsync_note_is_notified / nsync_note_expiry accordingly; nsync_note_new gives the new note expiry = min (abs_deadline, "
    "parent's expiry) - hence nsync_note_expiry is the minimum of the deadlines to the root by induction over construction -, links it "
    "under the parent iff the parent was not yet notified, and a child of a notified parent is born notified; note_enqueue / "
    "note_dequeue meet the waitable interface contract under note_mu. BOUNDED (real note.c + dll.c, tree of depth 3 with <= 2 children "
    "per node built by the real constructor, five deadline orderings, sequential): after nsync_note_notify (n) every descendant is "
    "notified and every waiter on them was released (flag cleared, then posted), ancestors and siblings and their waiters are "
    "untouched, notified notes are disconnected; notification is idempotent; after nsync_note_free of a middle node its children hang "
    "under its parent and a later notification of that parent reaches them; no note lock is held on return.")
LEVEL_TEXT = ("the one-way flag, the 'notify returns with the note notified' clause, the expiry-minimum clause and the interface contracts are "
              "proved unbounded; the propagation to descendants is a bounded (depth 3, sequential) check listed under bounded; monotonicity as "
              "observed ACROSS threads beyond the flag's guarantee clause, and 'once no notification is still in progress' under concurrency, "
              "are not decided: hence level other")
ASSUMPTIONS = []
NOT_DECIDED = ["propagation to descendants under concurrent notifiers / freers (see C09, not applicable)",
               "note_notify_child's recursion for trees deeper than 3"]
TRUSTED = []
PARALLEL = 12


def groups(tier):
    t = ["C08", "C03", "C13"]
    # the concurrent scenarios of C09 whose thread A creates a child or notifies: 'a child of a notified parent is born notified', 'when notify returns the note is notified'
    return note_groups(tags=t) + note_tree_groups(tags=t + ["C09"]) + \
           [g for g in note_conc_groups(tags=["C08"], tier=tier) if ".new." in g.name or ".notify." in g.name]
