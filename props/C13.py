"""C13 — releasing or waking never touches memory its owner may already have reclaimed."""
from props.shared import mu_groups, cnt_groups, sem_wait_groups, note_tree_groups

ID = "C13"
LEVEL = "proof"
EXPLANATION = (
    "Mutex clause: in the release functions (nsync_mu_unlock, nsync_mu_runlock, nsync_mu_unlock_without_wakeup, with "
    "nsync_mu_unlock_slow_ reached from them by its contract) the hook marks the mutex DEAD at the atomic step after which this thread "
    "holds neither the lock nor the queue spinlock, or at which it posts a waiter while no longer holding the lock (from there another "
    "thread can acquire, learn it is the last user and free the "
    "memory) and asserts at every later atomic access to the word that the mutex is not dead; proved on the real bodies for every "
    "word value and every interference. Waker clause: nsync_counter_add unlinks, clears the waiting flag and posts the semaphore of "
    "every waiter while HOLDING counter_mu, which the waiter's dequeue also takes (hook obligations at the flag store and at the post); the "
    "cancellable wait of sem_wait.c leaves its stack record on no list of the note when it returns (the list is what it was, or was emptied "
    "by a notifier) and never sleeps holding the note's lock; note_notify_child posts waiters only after clearing their flags (bounded tree group).")
ASSUMPTIONS = ["accesses to mu->waiters (a plain field) after the releasing step are not tracked by the hook; on the paths proved it is read only under the spinlock"]
NOT_DECIDED = ["cv wakers (wake_waiters) and non-native nsync_wait_n records: see DESIGN.md section 7.3",
               "nsync_mu_unlock_slow_'s own body is a BOUNDED check (every loop unwound 4x / 6x), listed under bounded"]
TRUSTED = []


def groups(tier):
    return mu_groups(tags=["C13"], which=["mu.unlock", "mu.runlock", "mu.unlock_without_wakeup", "mu.release_spinlock", "mu.unlock_slow"]) + \
           cnt_groups(tags=["C13"], which=["counter.add"]) + sem_wait_groups(tags=["C13"]) + note_tree_groups(tags=["C13", "C08"])
