"""C13 — releasing or waking never touches memory its owner may already have reclaimed."""
from props.shared import mu_groups, cnt_groups, sem_wait_groups, note_tree_groups, cv_queue_groups

ID = "C13"
LEVEL = "proof"
EXPLANATION = (
    "Mutex clause: in the release functions (nsync_mu_unlock, nsync_mu_runlock, nsync_mu_unlock_without_wakeup, with "
    "nsync_mu_unlock_slow_ reached from them by its contract) the hook marks the mutex DEAD at the atomic step after which this thread "
    "holds neither the lock nor the queue spinlock, or at which it posts a waiter while no longer holding the lock (from there another "
    "thread can acquire, learn it is the last user and free the "
    "memory) and asserts at every later atomic access to the word that the mutex is not dead; proved on the real bodies for every "
    "word value and every interference. Waker clause: nsync_counter_add unlinks, clears the waiting flag and posts the semaphore of "
    "every waiter while HOLDING counter_mu, which the waiter's dequeue also takes (hook obligations at the flag store and at the post); the "
    "cancellable wait of sem_wait.c leaves its stack record on no list of the note when it returns (the list is what it was, or was emptied "
    "by a notifier) and never sleeps holding the note's lock; note_notify_child posts waiters only after clearing their flags (bounded tree group). "
    "cv wakers (BOUNDED, real nsync_cv_signal / nsync_cv_broadcast / wake_waiters on the real dll.c with 0..3 queued records of every kind): a record "
    "registered through nsync_wait_n has no remove_count, its owner's cv_dequeue decides 'still queued' from the waiting flag under the cv spinlock "
    "and the record is reclaimed when nsync_wait_n returns; so the waker must clear the flag and post inside the spinlock section that unlinked "
    "the record. This obligation FAILED on the tree as given (genuine defect, reproduced natively with AddressSanitizer: findings/cv_waitn_race), "
    "was repaired by /repo commit 2becd4b and holds now.")
ASSUMPTIONS = ["accesses to mu->waiters (a plain field) after the releasing step are not tracked by the hook; on the paths proved it is read only under the spinlock"]
NOT_DECIDED = ["cv wakers beyond 3 queued records (bounded groups cvq.*)",
               "nsync_mu_unlock_slow_'s own body is a BOUNDED check (every loop unwound 4x / 6x), listed under bounded"]
TRUSTED = []


def groups(tier):
    return mu_groups(tags=["C13"], which=["mu.unlock", "mu.runlock", "mu.unlock_without_wakeup", "mu.release_spinlock", "mu.unlock_slow"], tier=tier) + \
           cnt_groups(tags=["C13"], which=["counter.add"]) + sem_wait_groups(tags=["C13"]) + note_tree_groups(tags=["C13", "C08"]) + \
           [g for g in cv_queue_groups(tags=["C13"], tier=tier) if tier == "thorough" or not g.name.endswith("N3")]
