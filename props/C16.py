"""C16 — the debug-state functions only observe, and stay inside the caller's buffer."""
import time
from props.shared import debug_word_groups, debug_buf_groups, debug_textual

ID = "C16"
LEVEL = "proof"
EXPLANATION = (
    "OBSERVE clause (unbounded, rely/guarantee): emit_mu_state / emit_cv_state and the four public entry points, extracted mechanically "
    "from internal/debug.c on every run (the printing layer is replaced by a stub because CBMC's contract instrumentation cannot pass "
    "through variadic calls), with the calling thread marked a pure observer (hold = none): under arbitrary interference by lockers, "
    "waiters and wakers before every atomic step, every step the debug code makes on the mutex word changes nothing but the queue "
    "spinlock bit, takes the spinlock only when free (acquire) and releases it as its owner (release); the cv variant stores the cv word "
    "only as spinlock owner. On the tree as given this FAILED at the release store of emit_mu_state (stale word written back; lockers "
    "hang / unlock panics, reproduced natively) and was repaired by /repo commit 871cd17. BUFFER clause: emit_c (the only function that "
    "writes the buffer) is enforced against its contract for every length up to 100000, every position and both overflow states: it "
    "writes the single byte start[pos] or, on the first overflow, the at most four tail bytes of \"...\\0\", nothing afterwards, and "
    "preserves the representation invariant; lemma over that contract (callee replaced, loop contract): any number of emit_c calls "
    "followed by the final emit_c (b, 0) leaves a NUL-terminated string for n >= 1 that ends with \"...\" when truncated and n >= 4, "
    "all writes inside a malloc(n) object; textual obligation: no other function of debug.c writes the buffer or its descriptor, the "
    "entry points hand (buf, n) unchanged to emit_init, emit_*_state end with emit_c (b, 0); bounded cross-check of the composition: "
    "the real emit_print on every format literal of debug.c preserves the invariant.")
ASSUMPTIONS = ["n >= 0 (a negative n would form &start[len] before the buffer; outside the statement)"]
NOT_DECIDED = ["'never deadlocks': the debug code's spin on the spinlock terminates under fair scheduling (liveness)"]
TRUSTED = ["regular-expression reading of debug.c for the 'only emit_c writes the buffer' obligation"]
PARALLEL = 8


def groups(tier):
    t = ["C16", "C01", "C03"]
    return debug_word_groups(tags=t) + debug_buf_groups(tags=t, tier=tier)


def extra_checks(tier):
    t0 = time.time()
    r = debug_textual()
    return [{"name": "text.only_emit_c_writes_the_buffer", "status": r["status"], "obligations": r["obligations"], "discharged": r["discharged"],
             "backend": "textual (regular expressions over function bodies)", "seconds": time.time() - t0, "detail": r["detail"],
             "cmd": "props/shared.py debug_textual() on internal/debug.c", "samples": r["samples"], "failed": r["failed"]}]
