"""C18 — nsync_time arithmetic is exact on normalized values."""
import os, re, subprocess, time
from vp.runner import Group, REPO, VERIF, WORK, run
from vp.extract import extract_functions, extract_define, ExtractError, strip_comments

ID = "C18"
LEVEL = "proof"
EXPLANATION = (
    "Contracts (contracts/c_time.h) on the real nsync_time_add/sub/cmp/s_ns/ms/us of platform/posix/src/time_rep.c and "
    "internal/time_internal.c, enforced by goto-instrument --dfcc on the unmodified translation units, for all 2^128 "
    "operand pairs / all 2^32 ms,us arguments, with signed-overflow and conversion checks on. The same contracts are "
    "enforced on the four C-style functions of platform/c++11/src/time_rep_timespec.cc, extracted mechanically on every "
    "run (brace matching; dropped: nsync_from_time_point_, nsync_to_time_point_, nsync_time_now, nsync_time_sleep = "
    "<chrono> glue outside C18's statement). Lemmas over the contracts (callees replaced by contracts): (a+b)-b==a, cmp is a "
    "total order, cmp agrees with the sign of a-b. z3 lemma (lemmas/time_lia.smt2, LIA over Z): the carry/borrow "
    "postconditions are exactly arithmetic and order on sec*1e9+nsec, and the ms/us quotient-remainder witnesses exist for "
    "every 32-bit argument and denote the stated duration. zero<=t<=no_deadline on the real constants and real cmp body.")
TRUSTED = ["z3 4.8.12 (LIA lemma)", "cvc5 1.0 as cbmc's SMT back end for nsync_time_ms/us",
           "the textual extraction of four functions from time_rep_timespec.cc (vp/extract.py)"]
ASSUMPTIONS = [
    "precondition: operands normalised (0 <= tv_nsec < 1e9) and the seconds field does not overflow (statement: 'barring overflow')",
    "C++ build: nsync_time_add/sub/cmp/s_ns of time_rep_timespec.cc are verified as C after mechanical extraction; "
    "time_internal.c is the same file in both builds and is verified as C",
    "time_t is 64-bit signed, long is 64-bit (LP64)"]
NOT_DECIDED = ["nsync_time_now/sleep, nsync_from_time_point_/nsync_to_time_point_ (chrono glue; not in the statement)"]

C_SRCS = ["harness/C18/time_h.c", "repo:platform/posix/src/time_rep.c", "repo:internal/time_internal.c"]
CXX = os.path.join(REPO, "platform/c++11/src/time_rep_timespec.cc")
CXX_NAMES = ["nsync_time_s_ns", "nsync_time_add", "nsync_time_sub", "nsync_time_cmp"]


def make_cxx_extract():
    d = os.path.join(WORK, "C18")
    os.makedirs(d, exist_ok=True)
    out = os.path.join(d, "time_rep_timespec_extracted.c")
    fns = extract_functions(CXX, CXX_NAMES)
    ns = extract_define(CXX, "NSYNC_NS_IN_S_")
    with open(out, "w") as f:
        f.write("/* GENERATED on every run by props/C18.py from platform/c++11/src/time_rep_timespec.cc:\n"
                "   the verbatim text of four function definitions and one #define. */\n"
                '#include "nsync_cpp.h"\n#include "platform.h"\n#include "compiler.h"\n#include "cputype.h"\n'
                '#include "nsync_time_init.h"\n#include "nsync_time.h"\n')
        f.write(ns + "\n")
        for n in CXX_NAMES:
            f.write(fns[n] + "\n\n")
    return out


def groups(tier):
    gs = []
    def G(name, fn, entry, srcs, **kw):
        return Group(name=name, srcs=srcs, entry=entry, enforce=fn, timeout=kw.pop("timeout", 300), replay="seq",
                     checks=["--bounds-check", "--pointer-check", "--signed-overflow-check", "--div-by-zero-check", "--conversion-check"], **kw)
    for fn, h in [("nsync_time_add", "h_time_add"), ("nsync_time_sub", "h_time_sub"),
                  ("nsync_time_cmp", "h_time_cmp"), ("nsync_time_s_ns", "h_time_s_ns")]:
        gs.append(G("c." + fn, fn, h, C_SRCS, min_obligations=10))
    for fn, h in [("nsync_time_ms", "h_time_ms"), ("nsync_time_us", "h_time_us")]:
        gs.append(G("c." + fn, fn, h, C_SRCS, replace=["nsync_time_s_ns"], solver="cvc5", timeout=900, min_obligations=10,
                    defines=["VP_NO_CANARY"], need_canary=False))   # reachability: z3 lemmas L7/L8 (every argument has a witness pair)
    try:
        ext = make_cxx_extract()
        for fn, h in [("nsync_time_add", "h_time_add"), ("nsync_time_sub", "h_time_sub"),
                      ("nsync_time_cmp", "h_time_cmp"), ("nsync_time_s_ns", "h_time_s_ns")]:
            gs.append(G("cxx." + fn, fn, h, ["harness/C18/time_h.c", ext, "repo:internal/time_internal.c"], min_obligations=10))
    except ExtractError as e:
        global _extract_error
        _extract_error = str(e)
    # lemmas over the contracts
    for h, rep in [("h_lemma_add_sub", ["nsync_time_add", "nsync_time_sub"]),
                   ("h_lemma_cmp_order", ["nsync_time_cmp"]),
                   ("h_lemma_cmp_sub", ["nsync_time_cmp", "nsync_time_sub"])]:
        gs.append(Group(name="lemma." + h, srcs=C_SRCS, entry=h, replace=rep, kind="lemma", timeout=300, min_obligations=1))
    gs.append(Group(name="lemma.bounds_real_constants", srcs=["harness/C18/time_consts.c", "repo:platform/posix/src/time_rep.c"],
                    entry="h_time_bounds", no_dfcc=True, kind="lemma", min_obligations=4))
    return gs

_extract_error = None


def extra_checks(tier):
    out = []
    if _extract_error:
        out.append({"name": "cxx.extract", "status": "infra", "obligations": 0, "discharged": 0, "detail": _extract_error})
    # z3 lemma
    t0 = time.time()
    p = os.path.join(VERIF, "lemmas/time_lia.smt2")
    rc, o, e, dt = run(["z3", p], 120)
    answers = o.split()
    n = len(re.findall(r"(?m)^\(check-sat\)", open(p).read()))
    good = sum(1 for a in answers if a == "unsat")
    st = "held" if (good == n and len(answers) == n) else "infra"
    failed = []
    out.append({"name": "lemma.z3_time_lia", "status": st, "obligations": n, "discharged": good, "backend": "z3 4.8.12 (LIA)",
                "seconds": dt, "detail": " ".join(answers) + e[-300:], "cmd": "z3 lemmas/time_lia.smt2",
                "samples": [{"obligation": "L1", "description": "carry form of add == T(a)+T(b) over Z"},
                            {"obligation": "L3", "description": "lexicographic (sec,nsec) order == order of sec*1e9+nsec"}],
                "failed": failed})
    # textual obligation: the C and C++ definitions of the two constants are identical
    t0 = time.time()
    def consts(path):
        s = strip_comments(open(path).read())
        a = re.findall(r"const\s+nsync_time\s+nsync_time_no_deadline\s*=\s*(.*?);", s, re.S)
        b = re.findall(r"const\s+nsync_time\s+nsync_time_zero\s*=\s*(.*?);", s, re.S)
        m = re.findall(r"#define\s+MAX_INT_TYPE\(t\)(.*?)(?<!\\)\n", s, re.S)
        norm = lambda x: re.sub(r"\s+", "", x)
        return [norm(x) for x in a], [norm(x) for x in b], [norm(x) for x in m]
    c = consts(os.path.join(REPO, "platform/posix/src/time_rep.c"))
    x = consts(CXX)
    ok = all(len(v) == 1 for v in c + x) and c == x
    if not all(len(v) == 1 for v in c + x):
        out.append({"name": "text.constants_identical", "status": "infra", "obligations": 0, "discharged": 0,
                    "detail": "must-fire: constant definitions not found exactly once"})
    else:
        out.append({"name": "text.constants_identical", "status": "held" if ok else "violation", "obligations": 1,
                    "discharged": 1 if ok else 0, "backend": "textual comparison", "seconds": time.time() - t0,
                    "detail": "" if ok else f"C: {c} C++: {x}",
                    "cmd": "compare definitions of nsync_time_no_deadline/nsync_time_zero/MAX_INT_TYPE in time_rep.c and time_rep_timespec.cc",
                    "samples": [{"obligation": "constants", "description": "nsync_time_no_deadline / nsync_time_zero defined identically in C and C++ files"}],
                    "failed": [] if ok else [{"name": "constants_identical", "description": "C18: C and C++ definitions of nsync_time_no_deadline/zero differ",
                                              "file": CXX, "line": "", "confirmed": True}]})
    return out
