"""C04 — condition-variable wake-ups are never lost and never swallowed by a timeout."""
from props.shared import cv_groups, cv_queue_groups, wait_groups

ID = "C04"
LEVEL = "other"
EXPLANATION = (
    "Per-call safety obligations on the real internal/cv.c. UNBOUNDED (contracts, loop contracts, arbitrary interference on the mutex "
    "word and the cv word, abstract queues): (1) atomicity of release-and-wait: in nsync_cv_wait_with_deadline_generic the spinlock "
    "section that puts the waiter on the cv queue (CV_NON_EMPTY set) completes before the mutex - nsync_mu in either mode or a generic "
    "lock - is released (precondition of the unlock contracts); the same for nsync_wait_n (all enqueues precede unlock: C11 group); "
    "(2) result code: under an environment in which a waker may unlink the record (remove_count moves under the cv spinlock) before "
    "every atomic step of the waiter, a waiter that was unlinked by a waker - i.e. consumed a wake-up - returns 0, and a non-zero result "
    "is reported only after the waiter removed ITSELF under the spinlock with remove_count unchanged (tagged loop-invariant clause); "
    "(3) cv word discipline: changed by CAS only to take the free spinlock (acquire), stored only by the spinlock owner (release); "
    "(4) wake_waiters: every element of the wake list is transferred to the mutex queue under the mutex's queue spinlock by legal "
    "transitions of the mutex word, or has its flag cleared (release) and then its semaphore posted; nothing is dropped. BOUNDED "
    "(real dll.c, exactly 0..3 queued waiters of every kind, representative mutex words, no interference during the call): "
    "nsync_cv_broadcast leaves the queue empty and every former element is woken or transferred; nsync_cv_signal takes the first "
    "element and, if it is a reader on an nsync_mu, every reader; elements not taken stay queued in place; CV_NON_EMPTY stays set while "
    "waiters remain; a transferred waiter leaves MU_WAITING set.")
LEVEL_TEXT = ("'a thread that started waiting before a wake-up is covered by it' across schedules is liveness and is not decided; the per-call "
              "clauses above are proved (unbounded) or checked (bounded, listed under bounded), hence level other")
ASSUMPTIONS = []
NOT_DECIDED = ["eventual return of the woken thread",
               "nsync_wait_n records on a cv beyond the bounded queue groups: the unlink / flag-clear / post of such a record inside one cv spinlock section is checked on queues of 0..3 records (cvq.*); it failed on the tree as given (genuine defect, DESIGN.md section 7.3) and holds since /repo commit 2becd4b",
               "word-level proofs of nsync_cv_signal / nsync_cv_broadcast for unbounded queues (their cv-word steps are checked in the bounded groups)"]
TRUSTED = []
PARALLEL = 10


def groups(tier):
    t = ["C04", "C01", "C05"]
    return cv_groups(tags=t) + cv_queue_groups(tags=t, tier=tier) + wait_groups(tags=["C04", "C11"])
