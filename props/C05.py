"""C05 — timed and cancellable waits return for the stated reason, holding the lock."""
from props.shared import mu_groups, cv_groups, sem_wait_groups

ID = "C05"
LEVEL = "proof"
EXPLANATION = (
    "nsync_mu_wait_with_deadline (real body, three loops closed by loop contracts, every callee replaced by its contract, arbitrary "
    "interference on the mutex word): returns holding the mutex in the mode (read or write) held on entry (tagged invariant: hold == "
    "entry hold; mode detection from the word under the thread's own invariant; the timeout path's writer -> reader downgrade); returns "
    "0 exactly when the condition's last evaluation - made by this thread, holding the mutex, as the last step before returning - was "
    "true; a non-zero result is the outcome of this call's own timed / cancellable sleep, and is reported only after the thread "
    "dequeued itself under lock + spinlock. The timeout re-acquisition helper returns either holding the caller's mode with the waiter "
    "dequeued, or holding nothing. nsync_cv_wait_with_deadline_generic (nsync_mu in read or write mode, or a generic lock): returns "
    "holding the lock in the mode held on entry; a non-zero result is the outcome of its own sleep and is reported only after it removed "
    "itself from the cv queue under the cv spinlock with remove_count unchanged. nsync_sem_wait_with_cancel_ (the reasons): ETIMEDOUT only "
    "if the timed semaphore wait was given exactly abs_deadline and timed out (so by C12 the deadline has been reached); ECANCELED only if "
    "the note is notified at return (flag set, or expiry <= 0, or its expiry was reached and the notification performed); with no note the "
    "result is that of the timed wait; at most one sleep per call.")
ASSUMPTIONS = ["the condition is an arbitrary client function"]
NOT_DECIDED = ["termination of the spin-acquire after a timeout (liveness)"]
TRUSTED = []


def groups(tier):
    return mu_groups(tags=["C05", "C01"], which=["mu.wait_with_deadline", "mu.try_acquire_after_timeout", "mu.lock_slow"]) + \
           cv_groups(tags=["C05", "C01", "C04"], which=["cv.wait_with_deadline_generic"]) + sem_wait_groups(tags=["C05", "C13"])
