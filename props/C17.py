"""C17 — the waiter-queue list operations implement a sequence."""
from vp.runner import Group

ID = "C17"
LEVEL = "proof"
EXPLANATION = (
    "Pointer-level contracts with exact frames (contracts/c_dll.h) on all ten functions of internal/dll.c, enforced on the real "
    "bodies by goto-instrument --dfcc for every aliasing pattern of the neighbourhood an operation touches (lists of any length: no "
    "clause mentions anything beyond the neighbourhood); make_first is proved against splice_after's contract and make_last against "
    "make_first's contract (callee replaced, not inlined). Sequence view: a step lemma on the real bodies from an ARBITRARY "
    "well-formed state of two disjoint lists + free singletons to op_spec(sequence), checked forwards and backwards through the "
    "real first/last/next/prev, for make_first, make_last, remove (+ re-insert), whole-list append/prepend and splice; that lemma "
    "runs on an explicit node pool and is therefore BOUNDED (<= 5 nodes quick, <= 6 thorough) and listed under 'bounded', not "
    "counted in 'discharged'.")
ASSUMPTIONS = [
    "clients respect the documented preconditions of dll.h (e not already in list; rings well linked)",
    "sequence-view step lemma is bounded by the node pool size; the pointer-level contracts are unbounded"]
NOT_DECIDED = ["sequence view for lists longer than the pool bound (the pointer-level contracts do cover them)"]
TRUSTED = []
PARALLEL = 12

S = ["harness/C17/dll_h.c", "repo:internal/dll.c"]
L = [("nsync_dll_init_", "h_dll_init", []), ("nsync_dll_is_empty_", "h_dll_is_empty", []),
     ("nsync_dll_remove_", "h_dll_remove", []), ("nsync_dll_splice_after_", "h_dll_splice", []),
     ("nsync_dll_make_first_in_list_", "h_dll_make_first", ["nsync_dll_splice_after_"]),
     ("nsync_dll_make_last_in_list_", "h_dll_make_last", ["nsync_dll_make_first_in_list_"]),
     ("nsync_dll_first_", "h_dll_first", []), ("nsync_dll_last_", "h_dll_last", []),
     ("nsync_dll_next_", "h_dll_next", []), ("nsync_dll_prev_", "h_dll_prev", [])]


def groups(tier):
    gs = [Group(name=fn, srcs=S, entry=h, enforce=fn, replace=rep, timeout=300, min_obligations=15) for fn, h, rep in L]
    n = 6 if tier == "thorough" else 5
    for h in ["h_seq_make_last", "h_seq_make_first", "h_seq_remove", "h_seq_append_list", "h_seq_prepend_list", "h_seq_splice"]:
        gs.append(Group(name="seq." + h, srcs=["harness/C17/dll_seq.c", "repo:internal/dll.c"], entry=h, no_dfcc=True,
                        unwind=n + 2, timeout=1800, kind="bounded", bound=f"<= {n} nodes over two lists + free singletons; one step from every well-formed state",
                        defines=[f"VP_N={n}"], min_obligations=50,
                        functions=["nsync_dll_first_", "nsync_dll_next_", "nsync_dll_prev_", "nsync_dll_last_"]))
    return gs
