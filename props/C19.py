"""C19 — allocation failure is reported, not crashed on, by the object constructors."""
from props.shared import note_groups, cnt_groups

ID = "C19"
LEVEL = "proof"
EXPLANATION = (
    "nsync_note_new and nsync_counter_new are enforced against contracts in which the allocation may fail (counter: cbmc's malloc model "
    "with --malloc-may-fail --malloc-fail-null; note: a malloc model that returns NULL or the storage of the new note): if the "
    "allocation fails the result is NULL, no lock was taken, and nothing of the intended parent note - child list, waiter list, parent "
    "link - has changed (the postcondition pins them; the counter constructor's frame is empty); every dereference inside the "
    "constructors is covered by cbmc's pointer checks on both outcomes. Each constructor performs exactly one allocation, so 'failing "
    "each one in turn' is the single nondeterministic choice. On success the C08 / C10 postconditions of the constructors hold.")
ASSUMPTIONS = ["the malloc in nsync_wait_n (count > 4) and in nsync_waiter_new_ are NOT checked by the code; C19's statement is about the two constructors only"]
NOT_DECIDED = []
TRUSTED = []


def groups(tier):
    return note_groups(tags=["C19", "C08"], which=["note.new", "note.is_notified"]) + cnt_groups(tags=["C19", "C10"], which=["counter.new"])
