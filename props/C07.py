"""C07 — nsync_run_once runs its function exactly once and nobody returns early."""
from props.shared import once_groups

ID = "C07"
LEVEL = "proof"
EXPLANATION = (
    "The real internal/once.c under rely/guarantee on the once word: G = the only transitions are 0 -> 1 by a CAS expecting 0 and "
    "1 -> 2 by the thread that made 0 -> 1 (the claimant), after it ran the function exactly once; 2 is absorbing; the rely lets other "
    "threads move the word 0 -> 1 -> 2 at every atomic step except 1 -> 2 while this thread is the claimant. nsync_run_once_impl is "
    "enforced against its contract for both s == NULL (spin variants) and s != NULL, f / farg, every initial word value, both loops "
    "closed by loop contracts: the function stub is called only by the claimant, at most once, strictly between the two transitions; "
    "the call returns only after an ACQUIRE load returned 2 or after its own release store of 2; the spin variants never take a lock. "
    "The four public entry points are verified against the contract of the implementation (callee replaced): none returns before "
    "completion, a call whose first load returns 2 takes no lock and waits on nothing. Lemma: G preserves 'at most one claimant ever' "
    "(so exactly one call runs the function, given that every return has seen 2 and 2 is only written after a run).")
ASSUMPTIONS = ["callers on different nsync_once objects that hash to the same once_sync slot only share a mutex/cv, whose contracts are used"]
NOT_DECIDED = ["that losing callers eventually wake (liveness; bounded by the 10-50 ms deadline loop in practice)"]
TRUSTED = []


def groups(tier):
    return once_groups(tags=["C07", "C03"])
