"""C15 — every deadline value is handled: expired deadlines time out, none crash."""
from props.shared import sem_groups, sem_prompt_group

ID = "C15"
LEVEL = "proof"
EXPLANATION = (
    "Timed P of the real nsync_semaphore_futex.c under contract for EVERY nsync_time with normalised nanoseconds (all 2^64 seconds "
    "values, including negative ones, zero and nsync_time_no_deadline): (a) the assumed futex contract requires a valid timespec "
    "(tv_sec >= 0, 0 <= tv_nsec < 1e9: otherwise Linux answers EINVAL) and that precondition is an obligation at the futex call site; "
    "(b) every ASSERT in the semaphore (a write through NULL) is unreachable (cbmc pointer checks inside the real body); (c) with the "
    "count at 0, nobody posting and the clock at or past the deadline on entry, timed P returns ETIMEDOUT in its first iteration (loop "
    "unwound once, unwinding assertion on: complete); (d) it never returns ETIMEDOUT unless a clock reading taken after the kernel's "
    "timeout has reached the deadline (no early timeout). On the tree as given (a) FAILED for tv_sec < 0 (SIGSEGV reproduced natively); "
    "repaired by /repo commit 987d932 (known_findings.json, fixed).")
ASSUMPTIONS = ["C and C++ builds use the same nsync_semaphore_futex.c (c++11.futex); it is verified as C",
               "callers pass times with normalised nanoseconds"]
NOT_DECIDED = []
TRUSTED = []


def groups(tier):
    return [g for g in sem_groups(tags=["C15", "C12"]) if g.name == "sem.p_with_deadline"] + [sem_prompt_group(tags=["C15", "C12"])]
