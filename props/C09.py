"""C09 — concurrent notify / free / create on related notes is safe."""
from props.shared import note_conc_groups, note_tree_groups

ID = "C09"
LEVEL = "other"
EXPLANATION = (
    "BOUNDED exploration of real interleavings, on the real internal/note.c + internal/dll.c with cbmc's own malloc / free (an access to a note after "
    "its nsync_note_free has returned is a dereference of a deallocated object; the abstract note locks assert it for the lock word as well). One "
    "thread A runs nsync_note_notify (n) on a family [grandparent ->] P -> n [-> child] built by the real nsync_note_new; at one of A's mutex "
    "operations (every one of them is tried, one group each, with A's first trylock of the parent failing or succeeding) other threads run one or "
    "two COMPLETE calls of the real library out of: nsync_note_notify (n) (a second notifier or a second poller of an expired note), "
    "nsync_note_free (P) (by P's owner: nobody else was given P), nsync_note_notify (P), nsync_note_new (P); a call that would have to block on a "
    "lock A holds or on a condition A has not yet established is not enabled at that point, so every explored interleaving is a real one. Obligations: "
    "no call touches a note after its free returned; no call locks a note it already holds; locks are released by their holders; A returns holding "
    "no lock, with n notified, disconnected from its parent and nobody left disconnecting it. The adoption clause ('the children of a freed note "
    "are adopted by its parent, so that a later notification of that ancestor still reaches them') is the sequential scenario note.tree.free_middle. "
    "On the tree as given the first obligation FAILED (genuine defect: two notifiers of one note, the first paused between releasing the note's lock "
    "and locking the parent it remembered, the parent freed in between; reproduced natively with AddressSanitizer, findings/note_double_notify); "
    "repaired in /repo, holds now.")
LEVEL_TEXT = ("whole-history safety over all interleavings of 2..4 threads and 'no call deadlocks' are not expressible as function contracts; a bounded set of real "
              "interleavings around one call under proof is explored instead (labelled bounded, never counted as proved), hence level other")
ASSUMPTIONS = ["nsync_mu_lock / trylock / unlock / nsync_mu_wait on the notes' locks behave as an exclusive lock and a conditional critical section (C01, C05, C06): abstract owner ghost per lock",
               "the clock is frozen during a scenario (no deadline expires): deadline-driven notification is the same code path (notify) as an explicit one",
               "environment calls are complete calls placed at ONE scheduling point of A; interleavings in which two environment calls overlap each other, or in which a blocked environment call resumes later, are not explored"]
NOT_DECIDED = ["absence of deadlock (a thread that would block is cut from the exploration, not reported)",
               "interleavings outside the bound: other calls under proof than nsync_note_notify (nsync_note_free, nsync_note_new as thread A), more than two environment calls, deeper trees"]
TRUSTED = []
TECHNIQUE = ("bounded stand-in within the contract-verification framework: plain cbmc (no contract instrumentation) on the real note.c + dll.c with an "
             "enumerated environment of complete real calls; every group is labelled bounded, nothing is counted as proved")
PARALLEL = 14


def groups(tier):
    return note_conc_groups(tags=["C09", "C08"], tier=tier) + [g for g in note_tree_groups(tags=["C09", "C08"]) if g.name.endswith("free_middle")]
