"""C03 — every hand-off is a happens-before edge under the declared memory orders."""
import time
from vp.runner import REPO
from vp import atomic_map
from props.shared import mu_groups, mu_lemmas, sem_groups, once_groups, cv_groups, cnt_groups, note_groups, note_tree_groups

ID = "C03"
LEVEL = "other"
EXPLANATION = (
    "Per-step memory-order obligations, machine-checked on the real code for every atomic step under arbitrary interference, plus a "
    "paper argument. The verification port of atomic.h passes the DECLARED order of every ATM_* call into the rely/guarantee hook, and "
    "obligations are attached to transition TYPES, not source lines: a transition of the mutex word that acquires the lock or the queue "
    "spinlock must be >= acquire, one that releases either must be >= release (plain stores included), both => acq_rel; a queued waiter "
    "re-acquires only after an ACQUIRE load observed its wake-up (tagged loop-invariant clause in nsync_mu_lock_slow_, hook obligation "
    "elsewhere); once: claiming CAS is acquire, the store of 2 is release, a call returns only after an acquire load returned 2 or its "
    "own store; counter: the value CAS is acq_rel, the loads that publish the value are acquire; cv: taking the cv spinlock is an acquire, "
    "releasing it a release; wakers (wake_waiters, nsync_counter_add) clear a waiter's flag with release order before posting; semaphore: V's increment is release, P's decrement is acquire. Textual obligation: platform/gcc_new, c11 and c++11 "
    "atomic.h map every ATM_* suffix to a memory order at least as strong as its name (eight macro bodies and four helpers per header). "
    "Only orders that an edge named in the statement needs are demanded. PAPER ARGUMENT (not mechanised): with those orders every "
    "acquiring read reads from the releasing write or from a later RMW of its release sequence, hence synchronises-with it under "
    "C11/C++20.")
LEVEL_TEXT = ("per-step order obligations are proved by CBMC contracts on the real code (unbounded, all interference); the step from "
              "'every synchronising step has the needed order' to 'happens-before' is a paper argument over the C11 model, hence level other")
ASSUMPTIONS = ["the C11/C++20 axiomatic memory model itself is not mechanised: release-sequence / synchronises-with argument on paper",
               "atomic steps are modelled as sequentially consistent for the functional part of the proofs"]
NOT_DECIDED = ["races on nsync's own non-atomic fields (queue links), compiler reordering",
               "waker-side stores of waiting=0 in nsync_mu_unlock_slow_ and note_notify_child (groups not yet under contract in this revision); "
               "wake_waiters and nsync_counter_add ARE checked (release order of the flag store, flag before post)"]
TRUSTED = ["regular-expression reading of the three platform atomic.h headers (vp/atomic_map.py)"]
PARALLEL = 12


def groups(tier):
    t = ["C03"]
    return mu_groups(tags=t, tier=tier) + mu_lemmas(tags=t) + sem_groups(tags=t) + once_groups(tags=t) + cv_groups(tags=t) + cnt_groups(tags=t) + note_groups(tags=t) + note_tree_groups(tags=t)


def extra_checks(tier):
    t0 = time.time()
    r = atomic_map.check_all(REPO)
    return [{"name": "text.atomic_h_mapping", "status": r["status"], "obligations": r["obligations"], "discharged": r["discharged"],
             "backend": "textual (regular expressions over macro bodies)", "seconds": time.time() - t0, "detail": r["detail"],
             "cmd": "vp/atomic_map.py on platform/{gcc_new,c11,c++11}/atomic.h", "samples": r["samples"], "failed": r["failed"]}]
