"""Obligation groups shared by several properties.  Each property module picks
the groups it depends on and the obligation tags it counts."""
from vp.runner import Group

CHK_NOCONV = ["--bounds-check", "--pointer-check", "--signed-overflow-check", "--div-by-zero-check"]

# ---------------------------------------------------------------- futex semaphore
SEM_S = ["harness/sem/sem_all.c", "rg/vp_rg.c", "rg/vp_sem.c", "rg/vp_clock.c", "rg/vp_stubs.c", "repo:platform/posix/src/time_rep.c"]
SF = ["vp_s.taken", "vp_s.posted", "vp_s.last_load_valid", "vp_s.last_load", "vp_s.futex_timedout", "vp_s.waits", "vp_s.wakes",
      "vp_s.wake_after_post", "vp_s.reads_at_timeout", "vp_clk.valid", "vp_clk.last", "vp_clk.reads"]
SEM_LOOPS = {
    "nsync_mu_semaphore_p": [{"names": ["s", "i", "f"],
                              "invariants": ["vp_s.taken == __CPROVER_loop_entry(vp_s.taken)", "vp_s.role == 0"],
                              "assigns": SF + ["i", "f->i", "vp_errno"]}],
    "nsync_mu_semaphore_p_with_deadline": [{"names": ["s", "i", "f", "result", "abs_deadline"],
                                            "invariants": ["vp_s.taken == __CPROVER_loop_entry(vp_s.taken)", "vp_s.role == 0", "result == 0"],
                                            "assigns": SF + ["i", "f->i", "vp_errno", "result"]}],
    "nsync_mu_semaphore_v": [{"names": ["f", "old_value"],
                              "invariants": ["vp_s.posted == 0 && vp_s.wakes == 0 && vp_s.wake_after_post == 1 && vp_s.role == 1"],
                              "assigns": SF + ["old_value", "f->i"]}],
}
SEM_ASSUMED = ["futex(2) contract (rg/vp_sem.c): FUTEX_WAIT returns 0 / EINTR / EAGAIN / ETIMEDOUT-only-with-timeout in any order and number; invalid timespec => EINVAL; "
               "compare-and-block atomic w.r.t. FUTEX_WAKE",
               "the variadic libc syscall() is renamed by a macro to a fixed-arity model vp_syscall_futex with the same seven arguments (harness/sem/sem_all.c)",
               "clock_gettime(CLOCK_REALTIME): monotone within one call, normalised, at or after the epoch"]


def sem_groups(tags=None):
    def G(name, fn, entry, loops, **kw):
        return Group(name=name, srcs=SEM_S, entry=entry, enforce=fn, loops=loops, timeout=600, unwind=64, object_bits=11,
                     defines=["VP_RG_SEM", "VP_REAL_SEM"], checks=CHK_NOCONV, tags=tags, assumed=SEM_ASSUMED, min_obligations=50, **kw)
    return [
        G("sem.p", "nsync_mu_semaphore_p", "h_sem_p", {"nsync_mu_semaphore_p": SEM_LOOPS["nsync_mu_semaphore_p"]}),
        G("sem.p_with_deadline", "nsync_mu_semaphore_p_with_deadline", "h_sem_p_deadline",
          {"nsync_mu_semaphore_p_with_deadline": SEM_LOOPS["nsync_mu_semaphore_p_with_deadline"]}),
        G("sem.v", "nsync_mu_semaphore_v", "h_sem_v", {"nsync_mu_semaphore_v": SEM_LOOPS["nsync_mu_semaphore_v"]}),
    ]


def sem_prompt_group(tags=None):
    return Group(name="sem.prompt_timeout", srcs=SEM_S, entry="h_sem_prompt", enforce="nsync_mu_semaphore_p_with_deadline",
                 timeout=600, unwind=64, object_bits=11, defines=["VP_RG_SEM", "VP_REAL_SEM"], checks=CHK_NOCONV, tags=tags,
                 unwind_fn={"nsync_mu_semaphore_p_with_deadline": 2},
                 assumed=SEM_ASSUMED + ["kernel: an absolute futex timeout that has already expired yields ETIMEDOUT at once when *uaddr == val"],
                 min_obligations=50)


# ---------------------------------------------------------------- mutex word (rely/guarantee)
MU_DEF = ["VP_ABSTRACT_QUEUE", "VP_RG_MU"]
RG = ["rg/vp_rg.c", "rg/vp_stubs.c"]
GSTEP = ["vp_g.hold", "vp_g.spin", "vp_g.waited", "vp_g.dead", "vp_g.set_desig", "vp_g.released_with_desig", "vp_g.longw_set", "vp_g.enq_long", "vp_g.enq_count", "vp_g.last_new"]
GLOCK = GSTEP + ["vp_g.queued", "vp_g.p_calls"]
GALL = GSTEP + ["vp_g.queued", "vp_g.p_calls", "vp_g.v_calls", "vp_g.cond_evals", "vp_g.last_cond", "vp_g.last_sem_outcome"]
FWDL = ["vp_fw.nw.waiting", "vp_fw.nw.flags", "vp_fw.remove_count", "vp_fw.cv_mu", "vp_fw.flags", "vp_fw.l_type", "vp_fw.cond.f"]
WKF0 = ["vp_wk.cleared", "vp_wk.posted", "vp_wk.pending", "vp_wk.last_cleared"]
HOLDLT = "((l_type == nsync_writer_type_ && vp_g.hold == 2) || (l_type == nsync_reader_type_ && vp_g.hold == 1))"
MU_ASSUMED = ["rely/guarantee soundness (paper argument): L-J + F-f for all f  ==>  J holds in every reachable state of every interleaving; atomic steps indivisible and sequentially consistent",
              "fewer than 2^24-1 threads hold or request one mutex (reader-count width)",
              "clients release only what they hold (precondition of the release functions)"]

L_LOCK_SLOW = {"nsync_mu_lock_slow_": [
    {"names": ["clear", "long_wait", "wait_count", "zero_to_acquire", "l_type", "mu", "w", "attempts"],
     "invariants": ["vp_g.hold == 0 && vp_g.spin == 0 && vp_g.dead == 0 && vp_g.queued == 0",
                    "clear == 0 || clear == 8u",
                    "(vp_tag_C03_wake_acq != 0 || ((clear == 8u) == (vp_g.waited != 0)))",
                    # C01: the acquisition mask keeps every lock bit the lock type demands
                    "(vp_tag_C01_hold != 0 || (zero_to_acquire & l_type->zero_to_acquire & 4294967041u) == (l_type->zero_to_acquire & 4294967041u))",
                    # C14: a thread that has not waited keeps MU_LONG_WAIT / MU_WRITER_WAITING in its mask
                    "(vp_tag_C14_escalate != 0 || clear != 0 || (zero_to_acquire & 96u) == (l_type->zero_to_acquire & 96u))",
                    "long_wait == 0 || long_wait == 64u",
                    # C02/C14 L4: a thread that raised MU_LONG_WAIT carries it in the mask it clears on acquisition
                    "(vp_tag_C02_resp != 0 || vp_g.longw_set == 0 || long_wait == 64u)",
                    "(vp_tag_C14_escalate != 0 || wait_count < 30u || long_wait == 64u)",
                    "vp_g.enq_count == wait_count"],
     "assigns": GLOCK + FWDL + ["mu->word", "mu->waiters", "w->nw.waiting", "clear", "long_wait", "wait_count", "zero_to_acquire", "attempts"]},
    {"names": ["w", "clear", "wait_count"],
     "invariants": ["vp_g.hold == 0 && vp_g.spin == 0 && vp_g.dead == 0", "vp_g.queued == 1",
                    "(clear == 0 && vp_g.waited == 0) || (clear == 8u && vp_g.waited != 0)", "vp_g.enq_count == wait_count + 1u",
                    "vp_g.longw_set == __CPROVER_loop_entry(vp_g.longw_set)"],
     "assigns": GLOCK + ["w->nw.waiting"]}]}
L_REL_SPIN = {"mu_release_spinlock": [{"names": ["mu", "old_word"], "invariants": ["vp_g.spin == 1 && vp_g.dead == 0"],
                                      "assigns": ["vp_g.spin", "vp_g.last_new", "vp_g.dead", "mu->word", "old_word"]}]}
L_SPIN_TAS = {"nsync_spin_test_and_set_": [{"names": ["w", "old", "attempts", "test"],
    "invariants": ["w != vp_reg.mu_word || (vp_g.spin == 0 && vp_g.dead == 0 && vp_g.hold == __CPROVER_loop_entry(vp_g.hold) && "
                   "vp_g.waited == __CPROVER_loop_entry(vp_g.waited) && vp_g.queued == __CPROVER_loop_entry(vp_g.queued) && "
                   "vp_g.set_desig == __CPROVER_loop_entry(vp_g.set_desig))",
                   "w != vp_reg.cv_word || vp_cvg.spin == 0",
                   "w == vp_reg.mu_word || (vp_g.spin == __CPROVER_loop_entry(vp_g.spin) && vp_g.enq_count == __CPROVER_loop_entry(vp_g.enq_count) && "
                   "vp_g.enq_long == __CPROVER_loop_entry(vp_g.enq_long) && vp_g.last_new == __CPROVER_loop_entry(vp_g.last_new))",
                   "w == vp_reg.cv_word || vp_cvg.spin == __CPROVER_loop_entry(vp_cvg.spin)"],
    "assigns": ["*w", "vp_g.spin", "vp_g.enq_count", "vp_g.enq_long", "vp_g.last_new", "vp_cvg.spin", "old", "attempts"]}]}
L_TRY_ACQ = {"mu_try_acquire_after_timeout_or_cancel": [{"names": ["mu", "old_word", "spin_attempts"],
    "invariants": ["vp_g.hold == 0 && vp_g.spin == 0 && vp_g.dead == 0 && vp_g.waited == 0", "vp_g.queued == __CPROVER_loop_entry(vp_g.queued)"],
    "assigns": GSTEP + ["mu->word", "old_word", "spin_attempts"]}]}
L_MU_WAIT = {"nsync_mu_wait_with_deadline": [
    {"names": ["mu", "l_type", "w", "outcome", "condition_is_true", "first_wait", "condition", "old_word"],
     "invariants": ["vp_g.spin == 0 && vp_g.dead == 0 && vp_g.waited == 0 && vp_g.queued == 0", HOLDLT,
                    "(vp_tag_C01_hold != 0 || vp_g.hold == __CPROVER_loop_entry(vp_g.hold))",
                    "w == 0 || (w == &vp_my_w && vp_reg.my_waiting == &vp_my_w.nw.waiting)",
                    "outcome == 0 || outcome == 110 || outcome == 125",
                    "(vp_tag_C05_reason != 0 || outcome == 0 || outcome == vp_g.last_sem_outcome)",
                    "(vp_tag_C05_reason != 0 || (condition_is_true != 0) == (condition == 0 || vp_g.last_cond != 0))"],
     "assigns": GALL + FWDL + WKF0 + ["vp_cvg.spin", "vp_my_w", "vp_reg.my_waiting", "mu->word", "mu->waiters", "w", "outcome", "condition_is_true", "first_wait", "old_word"]},
    {"names": ["mu", "l_type", "old_word", "add_to_acquire", "had_waiters"],
     "invariants": ["vp_g.spin == 1 && vp_g.dead == 0 && vp_g.waited == 0 && vp_g.queued == 1", HOLDLT, "vp_g.hold == __CPROVER_loop_entry(vp_g.hold)"],
     "assigns": GSTEP + ["mu->word", "old_word", "add_to_acquire"]},
    {"names": ["mu", "l_type", "sem_outcome", "have_lock", "outcome", "attempts", "w"],
     "invariants": ["vp_g.spin == 0 && vp_g.dead == 0 && vp_g.waited == 0", "w == &vp_my_w && vp_reg.my_waiting == &vp_my_w.nw.waiting",
                    "have_lock == 0 || have_lock == 1",
                    "(have_lock == 0 && vp_g.hold == 0 && vp_g.queued == 1) || (have_lock == 1 && vp_my_w.nw.waiting == 0 && vp_g.queued == 0 && " + HOLDLT + ")",
                    "sem_outcome == 0 || sem_outcome == 110 || sem_outcome == 125",
                    "(vp_tag_C05_reason != 0 || sem_outcome == 0 || sem_outcome == vp_g.last_sem_outcome)",
                    "(vp_tag_C05_reason != 0 || outcome == 0 || (have_lock == 1 && outcome == sem_outcome))"],
     "assigns": GALL + FWDL + ["vp_my_w.nw.waiting", "vp_my_w.remove_count", "mu->word", "mu->waiters", "sem_outcome", "have_lock", "outcome", "attempts"]}]}

SLOW = ["nsync_mu_lock_slow_", "nsync_waiter_new_", "nsync_waiter_free_"]


def _mu(name, src, fn, entry, replace=(), loops=None, tags=None, **kw):
    kw.setdefault("timeout", 600)
    kw.setdefault("unwind", 40)
    kw.setdefault("min_obligations", 100)
    return Group(name=name, srcs=[src] + RG + ["repo:internal/common.c"], entry=entry, enforce=fn, replace=list(replace), loops=loops,
                 defines=MU_DEF, tags=tags, assumed=MU_ASSUMED, replay="rg", **kw)


def mu_groups(tags=None, which=None, tier="quick"):
    M, W = "harness/mu/mu_all.c", "harness/mu/mu_wait_all.c"
    gs = [
        _mu("mu.lock_slow", M, "nsync_mu_lock_slow_", "h_lock_slow", ["nsync_spin_delay_", "mu_release_spinlock"], L_LOCK_SLOW, tags),
        _mu("mu.release_spinlock", M, "mu_release_spinlock", "h_release_spinlock", [], L_REL_SPIN, tags),
        _mu("mu.trylock", M, "nsync_mu_trylock", "h_trylock", [], None, tags),
        _mu("mu.rtrylock", M, "nsync_mu_rtrylock", "h_rtrylock", [], None, tags),
        _mu("mu.lock", M, "nsync_mu_lock", "h_lock", SLOW, None, tags),
        _mu("mu.rlock", M, "nsync_mu_rlock", "h_rlock", SLOW, None, tags),
        _mu("mu.unlock", M, "nsync_mu_unlock", "h_unlock", ["nsync_mu_unlock_slow_"], None, tags),
        _mu("mu.runlock", M, "nsync_mu_runlock", "h_runlock", ["nsync_mu_unlock_slow_"], None, tags),
        _mu("mu.unlock_without_wakeup", W, "nsync_mu_unlock_without_wakeup", "h_unlock_without_wakeup", ["nsync_mu_unlock_slow_"], None, tags),
        _mu("mu.try_acquire_after_timeout", W, "mu_try_acquire_after_timeout_or_cancel", "h_try_acquire",
            ["nsync_spin_delay_", "nsync_remove_from_mu_queue_"], L_TRY_ACQ, tags),
        # nsync_mu_wait_with_deadline: static (non-dfcc) contract instrumentation, see DESIGN.md section 5 addendum 2
        _mu("mu.wait_with_deadline", W, None, "h_mu_wait",
            ["nsync_spin_delay_", "nsync_waiter_new_", "nsync_waiter_free_", "nsync_spin_test_and_set_", "nsync_maybe_merge_conditions_",
             "nsync_mu_unlock_slow_", "nsync_sem_wait_with_cancel_", "mu_try_acquire_after_timeout_or_cancel", "nsync_mu_lock_slow_"],
            L_MU_WAIT, tags, oldstyle=True, object_bits=10, timeout=900, functions=["nsync_mu_wait_with_deadline"]),
    ]
    # nsync_mu_unlock_slow_: under dfcc (5 loop contracts, 6 replaced callees) cbmc exceeds 48 GB; decided by a BOUNDED run of the real body:
    # every loop (retry loops and queue scans, helpers included) unwound k times, arbitrary interference at every atomic step, abstract
    # queue with two distinct records
    k = 6 if tier == "thorough" else 4
    gs.append(Group(name="mu.unlock_slow", srcs=[M] + RG + ["repo:internal/common.c"], entry="h_unlock_slow", no_dfcc=True, kind="bounded",
                    bound=f"every loop of nsync_mu_unlock_slow_ and of the helpers it calls unwound {k} times (paths needing more iterations are cut); "
                          "arbitrary interference on the mutex word before every atomic step; abstract waiter queue with two distinct records",
                    timeout=1800, unwind=k, no_unwinding_assertions=True, object_bits=10, defines=MU_DEF + ["VP_RG_WAKER", "VP_TWO_RECORDS"], mem_gb=24,
                    tags=tags, assumed=MU_ASSUMED, min_obligations=300, replay="rg", functions=["nsync_mu_unlock_slow_"]))
    C = "harness/mu/common_all.c"
    gs += [
        Group(name="mu.spin_test_and_set", srcs=[C] + RG, entry="h_spin_test_and_set_mu", enforce="nsync_spin_test_and_set_",
              replace=["nsync_spin_delay_"], loops=L_SPIN_TAS, defines=MU_DEF, tags=tags, unwind=40, timeout=600, min_obligations=100, assumed=MU_ASSUMED),
        Group(name="common.spin_test_and_set_other_word", srcs=[C] + RG, entry="h_spin_test_and_set_other", enforce="nsync_spin_test_and_set_",
              replace=["nsync_spin_delay_"], loops=L_SPIN_TAS, defines=MU_DEF, tags=tags, unwind=40, timeout=600, min_obligations=100),
        Group(name="cv.spin_test_and_set", srcs=[C] + RG, entry="h_spin_test_and_set_cv", enforce="nsync_spin_test_and_set_",
              replace=["nsync_spin_delay_"], loops=L_SPIN_TAS, defines=MU_DEF + ["VP_RG_CV"], tags=tags, unwind=40, timeout=600, min_obligations=100),
        Group(name="common.spin_delay", srcs=[C] + RG, entry="h_spin_delay", enforce="nsync_spin_delay_", defines=MU_DEF, tags=tags,
              unwind=40, unwind_fn={"nsync_spin_delay_": 66}, timeout=600, min_obligations=5),
    ]
    if which is not None:
        gs = [g for g in gs if g.name in which]
    return gs


def mu_lemmas(tags=None):
    S = ["harness/mu/lemmas.c"] + RG + ["repo:internal/common.c"]
    return [Group(name="mu.lemma_LJ", srcs=S, entry="h_lemma_LJ", no_dfcc=True, kind="lemma", defines=MU_DEF, tags=tags, min_obligations=5),
            Group(name="mu.lock_types_real_tables", srcs=S, entry="h_lock_types", no_dfcc=True, kind="lemma", defines=MU_DEF, tags=tags, min_obligations=5)]


def mu_scan_groups(tags=None, tier="quick"):
    """C06/C02, queue content: the real nsync_mu_unlock_slow_ on the real dll.c with N concrete queued waiters of every kind."""
    S = ["harness/mu/mu_scan.c"] + RG + ["repo:internal/dll.c", "repo:internal/common.c"]
    gs = []
    for n in ((1, 2, 3) if tier == "thorough" else (1, 2)):
        gs.append(Group(name=f"mu.scan.N{n}", srcs=S, entry="h_scan", no_dfcc=True, kind="bounded",
                        bound=f"exactly {n} waiters on the mutex queue, each a writer or a reader with no condition, a false condition or a true condition (all {6 ** n} "
                              "combinations, enqueued through the real same_condition merging), the caller holding the mutex as writer or as last reader, three variants of "
                              "the hint bits, no interference during the call",
                        timeout=1800, unwind=12, defines=["VP_SEQUENTIAL", "VP_RG_MU", "VP_REAL_SEM", f"VP_N={n}"], object_bits=10, tags=tags, min_obligations=100, mem_gb=24,
                        functions=["nsync_mu_unlock_slow_", "skip_past_same_condition", "nsync_remove_from_mu_queue_", "nsync_maybe_merge_conditions_"]))
    return gs


def condq_scripts(K, S):
    """every maximal valid sequence of at most S queue operations with at most K enqueues (operation codes only; the records the removals
    apply to, first/last for the enqueues and the conditions stay nondeterministic in the harness)"""
    out = []

    def rec(seq, e, m, n, l):
        ext = []
        if len(seq) < S:
            if e < K: ext.append((seq + "E", e + 1, m + 1, n, l))
            if m > 0 and n == 0 and l == 0: ext.append((seq + "t", e, m - 1, n, l))
            if n == 0 and m > 0: ext.append((seq + "g", e, 0, m, l))
            if n > 0: ext.append((seq + "w", e, m, n - 1, l))
            if n > 0: ext.append((seq + "j", e, m, 0, l + n))
            if n == 0 and m == 0 and l > 0: ext.append((seq + "p", e, l, 0, 0))
        if not ext:
            out.append(seq)
        for x in ext:
            rec(*x)
    rec("", 0, 0, 0, 0)
    return out


def mu_condq_groups(tags=None, tier="quick"):
    """C06 at queue level: same_condition rings of the real mu.c on the real dll.c (no abstract queue, no interference: these functions run
    under the queue spinlock)."""
    S = ["harness/mu/mu_condq.c"] + RG + ["repo:internal/dll.c", "repo:internal/common.c"]
    D = ["VP_SEQUENTIAL", "VP_RG_MU"]
    K, n = (4, 6) if tier == "thorough" else (3, 5)
    gs = [Group(name="mu.merge_conditions", srcs=S, entry="h_merge", no_dfcc=True, kind="proof", defines=D, tags=tags, unwind=6, object_bits=10,
                min_obligations=20, timeout=600, replay="rg", functions=["nsync_maybe_merge_conditions_", "nsync_dll_splice_after_"],
                assumed=["loop-free harness over every equality pattern of the two condition arguments and every answer of condition_arg_eq: "
                         "complete for one call; rings of one or two records on either side"])]
    for sc in condq_scripts(K, n):
        gs.append(Group(name=f"mu.condq.{sc}", srcs=S, entry="h_condq", no_dfcc=True, kind="bounded",
                        bound=f"operation sequence {sc} (E enqueue last or first, t timeout removal, g scan pick-up, w wake, j re-join, p put back) on at most {K} "
                              "waiter records; which record each removal hits, first/last for each enqueue and the conditions (none; f1 on A1, on A2 "
                              "(eq-equivalent), on B; f2; f1 without condition_arg_eq) are arbitrary; all maximal sequences of this length are run, "
                              "each checked after every operation",
                        defines=D + [f"VP_K={K}", f"VP_S={len(sc)}", f'VP_SCRIPT="{sc}"'], tags=tags, unwind=10, object_bits=10, min_obligations=20,
                        timeout=1200, replay="rg", functions=["nsync_maybe_merge_conditions_", "nsync_remove_from_mu_queue_", "skip_past_same_condition"]))
    return gs


# ---------------------------------------------------------------- once
ONCE_S = ["harness/once/once_all.c", "rg/vp_rg.c", "rg/vp_once.c", "rg/vp_amu.c", "rg/vp_clock.c", "rg/vp_stubs.c",
          "repo:platform/posix/src/time_rep.c", "repo:internal/time_internal.c"]
OF = ["vp_o.winner", "vp_o.runs", "vp_o.stored_done", "vp_o.saw_done_acq", "vp_o.first_load_valid", "vp_o.first_load"]
AF = ["vp_amu.held", "vp_amu.lock_calls", "vp_amu.unlock_calls", "vp_amu.cv_waits", "vp_amu.cv_broadcasts"]
CLKF = ["vp_clk.valid", "vp_clk.last", "vp_clk.reads"]
L_ONCE = {"nsync_run_once_impl": [
    {"names": ["once", "o", "s"],
     "invariants": ["vp_o.winner == 0 && vp_o.runs == 0 && vp_o.stored_done == 0", "s == 0 || vp_amu.held[0] == 1", "o <= 2u"],
     "assigns": OF + ["*once", "o"]},
    {"names": ["once", "s", "attempts"],
     "invariants": ["(vp_tag_C07_once != 0 || vp_o.winner == 0 || vp_o.stored_done == 1)", "vp_o.runs == (vp_o.winner != 0 ? 1u : 0u)",
                    "vp_amu.held[0] == (s != 0 ? 1 : 0)",
                    "s != 0 || (vp_amu.lock_calls == __CPROVER_loop_entry(vp_amu.lock_calls) && vp_amu.cv_waits == __CPROVER_loop_entry(vp_amu.cv_waits))"],
     "assigns": OF + AF + CLKF + ["*once", "attempts"]}]}
ONCE_ASSUMED = ["nsync_mu_lock/unlock and nsync_cv_broadcast/wait_with_deadline as used by once.c obey their ghost contracts (rg/vp_amu.c; proved for the mutex under C01/C05)",
                "the once-function is an arbitrary client function (stub) that does not touch the nsync_once",
                "rely/guarantee soundness (paper argument); atomic steps sequentially consistent"]


def once_groups(tags=None):
    def G(name, fn, entry, rep, loops, **kw):
        return Group(name=name, srcs=ONCE_S, entry=entry, enforce=fn, replace=rep, loops=loops, timeout=600, unwind=70,
                     defines=["VP_RG_ONCE", "VP_ABSTRACT_MU", "VP_REAL_SEM"], tags=tags, assumed=ONCE_ASSUMED, replay="rg", **kw)
    return [G("once.impl", "nsync_run_once_impl", "h_once_impl", ["nsync_spin_delay_"], L_ONCE, min_obligations=100),
            G("once.public_entry_points", None, "h_once_public", ["nsync_run_once_impl"], None, min_obligations=50,
              functions=["nsync_run_once", "nsync_run_once_arg", "nsync_run_once_spin", "nsync_run_once_arg_spin"]),
            G("once.lemma_single_claimant", None, "h_once_lemma", [], None, no_dfcc=True, kind="lemma", min_obligations=1)]


# ---------------------------------------------------------------- counter
CNT_S = ["harness/cnt/counter_all.c", "rg/vp_rg.c", "rg/vp_cnt.c", "rg/vp_amu.c", "rg/vp_stubs.c", "repo:platform/posix/src/time_rep.c"]
CNT_DEF = ["VP_RG_CNT", "VP_RG_WAKER", "VP_WK_LOCKED", "VP_ABSTRACT_MU", "VP_ABSTRACT_QUEUE"]
CF = ["vp_c.cas_count", "vp_c.cas_old", "vp_c.cas_new", "vp_c.load_valid", "vp_c.last_load", "vp_c.last_load_acq", "vp_c.raising_from_zero"]
WKF = ["vp_wk.cleared", "vp_wk.posted", "vp_wk.pending", "vp_wk.last_cleared"]
L_CNT_ADD = {"nsync_counter_add": [
    {"names": ["c", "value"],
     "invariants": ["vp_amu.held[0] == 1 && vp_c.cas_count == 0 && vp_wk.pending == 0",
                    "vp_wk.cleared == __CPROVER_loop_entry(vp_wk.cleared) && c->waiters == __CPROVER_loop_entry(c->waiters)"],
     "assigns": CF + ["c->value", "value"]},
    {"names": ["c", "p"],
     "invariants": ["vp_amu.held[0] == 1 && vp_wk.pending == 0", "(vp_tag_C10_cnt != 0 || vp_wk.cleared == vp_wk.posted)",
                    "c->waiters == 0 || c->waiters == &vp_fw.nw.q", "vp_c.cas_count == 1"],
     "assigns": WKF + FWDL + ["c->waiters", "p", "vp_g.v_calls"]}]}
CNT_ASSUMED = ["nsync_mu_lock/unlock on counter_mu obey the ghost contract of the mutex (rg/vp_amu.c; proved under C01)",
               "client preconditions of nsync_counter.h: the add does not overflow; the count is not raised from zero after a wait was issued",
               "abstract waiter queue (rg/vp_stubs.c) in the release loop: every record has arbitrary contents; exact list behaviour is C17",
               "linearizability across threads follows from mutex exclusion (C01): stated, not re-proved",
               "rely/guarantee soundness (paper argument)"]


def cnt_groups(tags=None, which=None):
    def G(name, fn, entry, rep=(), loops=None, **kw):
        return Group(name=name, srcs=CNT_S, entry=entry, enforce=fn, replace=list(rep), loops=loops, timeout=600, unwind=100,
                     defines=CNT_DEF, tags=tags, assumed=CNT_ASSUMED, replay="rg", min_obligations=kw.pop("min_obligations", 80), **kw)
    gs = [G("counter.add", "nsync_counter_add", "h_counter_add", loops=L_CNT_ADD),
          G("counter.value", "nsync_counter_value", "h_counter_value"),
          G("counter.ready_time", "counter_ready_time", "h_counter_ready_time"),
          G("counter.enqueue", "counter_enqueue", "h_counter_enqueue"),
          G("counter.dequeue", "counter_dequeue", "h_counter_dequeue"),
          G("counter.wait", "nsync_counter_wait", "h_counter_wait", rep=["nsync_wait_n"]),
          G("counter.new", "nsync_counter_new", "h_counter_new", malloc_may_fail=True)]
    if which is not None:
        gs = [g for g in gs if g.name in which]
    return gs


# ---------------------------------------------------------------- nsync_wait_n against the waitable interface
WAIT_S = ["harness/wait/wait_all.c", "rg/vp_rg.c", "rg/vp_stubs.c", "repo:internal/dll.c", "repo:platform/posix/src/time_rep.c"]
L_WAIT = {"nsync_wait_n": [
    {"names": ["count", "min_ntime", "j", "nw", "w", "abs_deadline", "enqueued", "i", "unlocked", "ready"],
     "invariants": ["i == count && ready == count && vp_w.n_enq == count && vp_w.n_deq == 0 && vp_w.lock_calls == 0",
                    "unlocked == vp_w.unlock_calls && unlocked == (vp_w.the_mu != 0 ? 1 : 0)", "w == &the_waiter"],
     "assigns": ["min_ntime", "j", "vp_w.round_next", "vp_w.round_complete", "vp_w.round_min", "vp_w.round_any_ready", "vp_w.p_calls",
                 "vp_w.timed_out", "vp_w.timeout_at", "vp_w.ready_reached", "vp_w.last_rt"]}]}
WAIT_ASSUMED = ["interface contract of struct nsync_waitable_funcs_s (public/nsync_waiter.h:131-147) as stub waitables with arbitrary answers: an object that is "
                "ready stays ready (ready_time 0, dequeue reports 'not queued'); an object whose announced ready time was reached is ready",
                "timed semaphore wait: 0, or ETIMEDOUT only once the clock has reached the given deadline (C12)",
                "malloc of the bookkeeping array (count > 4) succeeds: wait.c does not check it (unchecked allocation, outside C19's statement)",
                "count <= 6 (array size of the harness; covers the on-stack (<= 4) and heap (> 4) bookkeeping paths); the loops over the objects are "
                "unwound statically with unwinding assertions (complete for count <= 6), the sleep loop is closed by a loop contract (any number of wake-ups)"]


def wait_groups(tags=None):
    return [Group(name="wait.wait_n", srcs=WAIT_S, entry="h_wait_n", enforce="nsync_wait_n", loops=L_WAIT, timeout=900, unwind=30,
                  pre_unwind={"nsync_wait_n": ([0, 1, 2, 4], 8)}, unwind_fn={"h_wait_n": 8}, defines=["VP_REAL_SEM", "VP_MAXC=6"], object_bits=10,
                  tags=tags, assumed=WAIT_ASSUMED, min_obligations=500)]


# ---------------------------------------------------------------- condition variable
CV_S = ["harness/cv/cv_all.c"] + RG + ["repo:internal/common.c"]
CV_DEF = ["VP_ABSTRACT_QUEUE", "VP_RG_MU", "VP_RG_WAKER", "VP_RG_CV"]
CVG = ["vp_cvg.spin", "vp_cvg.enq_done", "vp_cvg.unlinked_by_other", "vp_cvg.self_dequeued", "vp_cvg.sections"]
L_WAKE_WAITERS = {"wake_waiters": [
    {"names": ["p", "next", "to_wake_list", "pmu", "transferred_a_writer", "woke_areader", "first_cant_acquire", "first_is_writer"],
     "invariants": ["vp_g.spin == 1 && vp_g.dead == 0 && vp_wk.pending == 0 && vp_wk.cleared == vp_wk.posted",
                    "vp_g.hold == __CPROVER_loop_entry(vp_g.hold) && vp_g.waited == __CPROVER_loop_entry(vp_g.waited) && vp_g.queued == __CPROVER_loop_entry(vp_g.queued)",
                    "p == 0 || p == &vp_fw.nw.q", "&pmu->word == vp_reg.mu_word", "to_wake_list == 0 || to_wake_list == &vp_fw.nw.q"],
     "assigns": FWDL + ["p", "next", "to_wake_list", "pmu->waiters", "transferred_a_writer", "woke_areader"]},
    {"names": ["pmu", "old_mu_word", "set_on_release"],
     "invariants": ["vp_g.spin == 1 && vp_g.dead == 0",
                    "vp_g.hold == __CPROVER_loop_entry(vp_g.hold) && vp_g.waited == __CPROVER_loop_entry(vp_g.waited) && vp_g.queued == __CPROVER_loop_entry(vp_g.queued)",
                    "&pmu->word == vp_reg.mu_word", "(set_on_release & ~32u) == 0"],
     "assigns": ["vp_g.spin", "vp_g.last_new", "vp_g.dead", "pmu->word", "old_mu_word"]},
    {"names": ["p", "next", "to_wake_list"],
     "invariants": ["vp_g.spin == 0 && vp_wk.pending == 0 && vp_wk.cleared == vp_wk.posted", "p == 0 || p == &vp_fw.nw.q",
                    "to_wake_list == 0 || to_wake_list == &vp_fw.nw.q"],
     "assigns": FWDL + WKF + ["p", "next", "to_wake_list", "vp_g.v_calls"]}]}
L_CV_WAIT = {"nsync_cv_wait_with_deadline_generic": [
    {"names": ["pcv", "cv_mu", "w", "sem_outcome", "outcome", "remove_count", "attempts", "old_word", "lock", "is_reader_mu"],
     "invariants": ["vp_g.hold == 0 && vp_g.spin == 0 && vp_g.dead == 0 && vp_cvg.spin == 0 && vp_g.waited == 0",
                    "w == &vp_my_w && vp_reg.my_waiting == &vp_my_w.nw.waiting && vp_cvg.my_remove_count == &vp_my_w.remove_count",
                    "cv_mu == 0 || &cv_mu->word == vp_reg.mu_word",
                    "cv_mu != 0 || (vp_gen.held == 0 && vp_gen.unlocks == 1 && vp_gen.locks == 0)",
                    "sem_outcome == 0 || sem_outcome == 110 || sem_outcome == 125",
                    "(vp_tag_C05_reason != 0 || sem_outcome == 0 || sem_outcome == vp_g.last_sem_outcome)",
                    "(vp_tag_C05_reason != 0 || outcome == 0 || (outcome == sem_outcome && vp_cvg.self_dequeued == 1))",
                    "(vp_tag_C04_consume != 0 || vp_cvg.self_dequeued == 0 || vp_cvg.unlinked_by_other == 0)",
                    "vp_cvg.self_dequeued == 0 || (vp_my_w.nw.waiting == 0 && vp_g.queued == 0 && vp_my_w.cv_mu == cv_mu)",
                    "vp_cvg.self_dequeued != 0 || (vp_g.queued == 1 && outcome == 0)",
                    "vp_cvg.self_dequeued != 0 || ((vp_cvg.unlinked_by_other != 0) == (vp_my_w.remove_count != remove_count))",
                    "vp_cvg.unlinked_by_other != 0 || vp_my_w.cv_mu == cv_mu",
                    "vp_my_w.cv_mu == cv_mu || vp_my_w.cv_mu == 0",
                    "vp_my_w.l_type == (cv_mu == 0 ? 0 : (is_reader_mu ? nsync_reader_type_ : nsync_writer_type_))"],
     "assigns": GALL + FWDL + CVG + ["vp_my_w.nw.waiting", "vp_my_w.remove_count", "vp_my_w.cv_mu", "pcv->word", "pcv->waiters",
                                      "sem_outcome", "outcome", "attempts", "old_word"]},
    {"names": ["w"],
     "invariants": ["vp_cvg.spin == 1 && vp_cvg.self_dequeued == 0 && vp_cvg.unlinked_by_other == 0 && w == &vp_my_w && "
                    "vp_cvg.my_remove_count == &vp_my_w.remove_count"],
     "assigns": ["vp_cvg.self_dequeued", "vp_cvg.unlinked_by_other", "vp_my_w.remove_count", "vp_my_w.cv_mu"]}]}
CV_ASSUMED = MU_ASSUMED + ["environment model of a cv waiter (rg/vp_rg.c cv_env_step): before every atomic step a waker may unlink the record under the cv "
                           "spinlock (remove_count moves), may transfer it to the mutex queue, and only then may clear its waiting flag",
                           "abstract waiter queues in the word-level cv proofs; queue contents are covered by the bounded groups"]


def cv_groups(tags=None, which=None):
    gs = [Group(name="cv.wake_waiters", srcs=CV_S, entry="h_wake_waiters", enforce="wake_waiters", loops=L_WAKE_WAITERS, timeout=900, unwind=60,
                object_bits=10, defines=CV_DEF, tags=tags, assumed=CV_ASSUMED, min_obligations=300),
          Group(name="cv.wait_with_deadline_generic", srcs=CV_S, entry="h_cv_wait", enforce="nsync_cv_wait_with_deadline_generic",
                replace=["nsync_spin_delay_", "nsync_waiter_new_", "nsync_waiter_free_", "nsync_spin_test_and_set_", "nsync_mu_unlock", "nsync_mu_runlock",
                         "nsync_mu_lock", "nsync_mu_rlock", "nsync_mu_lock_slow_", "nsync_sem_wait_with_cancel_"],
                loops=L_CV_WAIT, timeout=900, unwind=60, object_bits=10, defines=CV_DEF, tags=tags, assumed=CV_ASSUMED, min_obligations=500,
                functions=["nsync_cv_wait_with_deadline_generic", "nsync_cv_wait_with_deadline", "nsync_cv_wait"])]
    if which is not None:
        gs = [g for g in gs if g.name in which]
    return gs


def cv_queue_groups(tags=None, tier="quick"):
    S = ["harness/cv/cv_queue.c"] + RG + ["repo:internal/dll.c", "repo:internal/common.c", "repo:platform/posix/src/time_rep.c"]
    kmax = 3
    gs = []
    for h in ("h_cv_broadcast", "h_cv_signal", "h_cv_waitable"):
        for n in range(0, (kmax if h != "h_cv_waitable" else 2) + 1):
            d = ["VP_SEQUENTIAL", "VP_RG_MU", "VP_RG_WAKER", "VP_RG_CV", "VP_REAL_SEM", f"VP_K={kmax}", f"VP_N={n}"]
            if tier == "quick":
                d.append("VP_WORDS_SMALL")
            gs.append(Group(name=f"cvq.{h[5:]}.N{n}", srcs=S, entry=h, no_dfcc=True, kind="bounded",
                            bound=f"exactly {n} waiters on the cv queue (all kinds: native reader / native writer / nsync_wait_n record; with or without an nsync_mu), "
                                  f"{'5' if tier == 'quick' else '10'} representative values of the mutex word, no interference during the call",
                            timeout=1800, unwind=12, defines=d, object_bits=10, tags=tags, min_obligations=100,
                            functions=["nsync_cv_broadcast", "nsync_cv_signal", "wake_waiters"] + (["cv_enqueue", "cv_dequeue", "cv_ready_time"] if h == "h_cv_waitable" else [])))
    return gs


# ---------------------------------------------------------------- debug.c, word-level clause (extraction: dfcc cannot instrument variadic calls)
import os as _os
from vp.runner import WORK as _WORK, REPO as _REPO, VERIF as _VERIF
from vp.extract import extract_functions as _extract_functions, ExtractError

DEBUG_WORD_FNS = ["emit_init", "emit_mu_state", "emit_cv_state", "nsync_mu_debug_state", "nsync_cv_debug_state",
                  "nsync_mu_debug_state_and_waiters", "nsync_cv_debug_state_and_waiters"]


def make_debug_word_tu():
    """Mechanical extraction, on every run, of the functions of internal/debug.c that touch the mutex / cv word.  What it drops:
    the printing layer (emit_print, emit_word, emit_waiters, emit_c): every call to it is replaced, by macro, by a non-variadic stub
    that may write the buffer descriptor - CBMC's contract instrumentation cannot pass through variadic calls.  The buffer clause of C16
    is proved on the unextracted file (harness/debug/debug_buf.c)."""
    d = _os.path.join(_WORK, "debug")
    _os.makedirs(d, exist_ok=True)
    out = _os.path.join(d, "debug_word_extracted.c")
    src = _os.path.join(_REPO, "internal/debug.c")
    fns = _extract_functions(src, DEBUG_WORD_FNS)
    import re
    txt = open(src).read()
    m = re.findall(r"struct emit_buf \{.*?\n\};", txt, re.S)
    if len(m) != 1:
        raise ExtractError("expected exactly one definition of struct emit_buf in debug.c")
    with open(out, "w") as f:
        f.write('/* GENERATED on every run from internal/debug.c by props/shared.py make_debug_word_tu (verbatim function texts). */\n'
                '#include "c_mu.h"\n' + m[0] + "\n"
                "static void vp_print_stub (struct emit_buf *b) { if (vp_nondet_bool ()) b->pos = (int) vp_nondet_i32 (); if (vp_nondet_bool ()) b->overflow = 1; }\n"
                "#define emit_print(b, ...) vp_print_stub (b)\n#define emit_word(b, n, w) vp_print_stub (b)\n"
                "#define emit_waiters(b, l) vp_print_stub (b)\n#define emit_c(b, c) vp_print_stub (b)\n")
        for n in DEBUG_WORD_FNS:
            f.write(fns[n] + "\n\n")
        f.write(open(_os.path.join(_VERIF, "harness/debug/debug_word_tail.c")).read())
    return out


L_DEBUG_MU = {"emit_mu_state": [{"names": ["mu", "old_word"],
                                 "invariants": ["vp_g.spin == 1 && vp_g.hold == 0 && vp_g.dead == 0 && vp_g.observer == 1"],
                                 "assigns": ["vp_g.spin", "vp_g.last_new", "vp_g.dead", "mu->word", "old_word"]}]}


def debug_word_groups(tags=None):
    tu = make_debug_word_tu()
    S = [tu] + RG + ["repo:internal/common.c"]
    D = ["VP_ABSTRACT_QUEUE", "VP_RG_MU", "VP_RG_CV"]
    A = MU_ASSUMED + ["extraction of emit_mu_state / emit_cv_state and the four entry points from debug.c with the printing layer replaced by a stub (see make_debug_word_tu)"]
    return [Group(name="debug.mu_state_word", srcs=S, entry="h_debug_mu", replace=["nsync_spin_test_and_set_"], loops=L_DEBUG_MU, timeout=600, unwind=40,
                  defines=D, tags=tags, assumed=A, min_obligations=100, replay="rg",
                  functions=["emit_mu_state", "nsync_mu_debug_state", "nsync_mu_debug_state_and_waiters"]),
            Group(name="debug.cv_state_word", srcs=S, entry="h_debug_cv", replace=["nsync_spin_test_and_set_"], timeout=600, unwind=40,
                  defines=D, tags=tags, assumed=A, min_obligations=100, replay="rg",
                  functions=["emit_cv_state", "nsync_cv_debug_state", "nsync_cv_debug_state_and_waiters"])]


# ---------------------------------------------------------------- debug.c, buffer clause
def debug_format_strings():
    """Must-fire extraction of every format literal passed to emit_print in debug.c."""
    import re
    from vp.extract import strip_comments
    src = open(_os.path.join(_REPO, "internal/debug.c")).read()
    calls = re.findall(r"emit_print\s*\(\s*b\s*,", src)
    fmts = re.findall(r'emit_print\s*\(\s*b\s*,\s*("(?:[^"\\]|\\.)*")', src)
    if len(fmts) != len(calls) or len(fmts) < 5:
        raise ExtractError(f"emit_print call sites: {len(calls)}, with a literal format: {len(fmts)} (every call must pass a literal format)")
    out = []
    for f in fmts:
        body = f[1:-1]
        specs = re.findall(r"%(.)", body)
        if any(s not in "si" for s in specs):
            raise ExtractError(f"format {f} uses a conversion other than %s / %i")
        if f not in [x[0] for x in out]:
            out.append((f, specs))
    return out


def make_debug_fmt_tu():
    d = _os.path.join(_WORK, "debug")
    _os.makedirs(d, exist_ok=True)
    out = _os.path.join(d, "debug_fmt_generated.c")
    fmts = debug_format_strings()
    with open(out, "w") as f:
        f.write('/* GENERATED on every run by props/shared.py make_debug_fmt_tu: one harness per format literal passed to emit_print in debug.c */\n'
                '#include "' + _os.path.join(_VERIF, "harness/debug/debug_buf.c") + '"\n'
                'static char vp_str[8];\n'
                'static void fmt_setup (int len, int pos, int ovf) {\n'
                '	int i; char *buf;\n'
                '	buf = (char *) malloc ((size_t) len); __CPROVER_assume (buf != NULL);\n'
                '	for (i = 0; i < len; i++) buf[i] = (char) vp_nondet_i32 ();\n'
                '	if (ovf) { if (len >= 1) buf[len - 1] = 0; if (len >= 2) buf[len - 2] = 46; if (len >= 3) buf[len - 3] = 46; if (len >= 4) buf[len - 4] = 46; }\n'
                '	eb.start = buf; eb.len = len; eb.pos = pos; eb.overflow = ovf;\n'
                '	for (i = 0; i < 7; i++) vp_str[i] = (char) vp_nondet_i32 ();\n'
                '	vp_str[7] = 0;\n'
                '}\n'
                '#define FMT_CHECK() do { __CPROVER_assert (VP_EB_INV (&eb), "C16: emit_print preserves the emit_buf invariant (writes only inside the buffer, tail intact once overflowed)"); } while (0)\n')
        f.write('static const uintptr_t vp_vals[] = { 0, 0xf, 0x10, 0xabc, (uintptr_t) 0x123456789abcdef0ull, ~(uintptr_t) 0 };\n')
        for k, (lit, specs) in enumerate(fmts):
            args = "".join(", vp_str" if s == "s" else ", vp_vals[(v_ + %d) %% 6]" % j for j, s in enumerate(specs))
            f.write(f"void h_fmt_{k} (void) {{ int v_, len_, pos_, ovf_; for (v_ = 0; v_ < {6 if 'i' in specs else 1}; v_++) for (len_ = 0; len_ <= VP_FMT_MAXLEN; len_++) "
                    f"for (pos_ = 0; pos_ <= len_; pos_++) for (ovf_ = 0; ovf_ <= (pos_ == len_ ? 1 : 0); ovf_++) {{ char *s0; int l0; fmt_setup (len_, pos_, ovf_); s0 = eb.start; l0 = eb.len; "
                    f"emit_print (&eb, {lit}{args}); FMT_CHECK (); "
                    f'__CPROVER_assert (eb.start == s0 && eb.len == l0, "C16: emit_print does not redirect the buffer"); }} VP_CANARY (); }}\n')
    return out, fmts


def debug_textual():
    """Textual obligation: in debug.c the buffer and its descriptor are written only by emit_init and emit_c; every entry point
    hands (buf, n) unchanged to emit_init; emit_mu_state / emit_cv_state end their output with emit_c (b, 0)."""
    import re
    from vp.extract import strip_comments, extract_function
    src = open(_os.path.join(_REPO, "internal/debug.c")).read()
    clean = strip_comments(src)
    res = {"obligations": 0, "discharged": 0, "failed": [], "status": "held", "detail": "", "samples": []}
    names = re.findall(r"(?m)^(?:static\s+)?(?:[\w\*]+\s+)+\**(\w+)\s*\([^;{]*\)\s*\{", clean)
    names = [n for n in dict.fromkeys(names) if n not in ("if", "while", "for", "switch")]
    need = {"emit_init", "emit_c", "emit_print", "emit_word", "emit_waiters", "emit_mu_state", "emit_cv_state", "nsync_mu_debug_state",
            "nsync_cv_debug_state", "nsync_mu_debug_state_and_waiters", "nsync_cv_debug_state_and_waiters"}
    if not need <= set(names):
        return {**res, "status": "infra", "detail": f"debug.c: functions not found: {sorted(need - set(names))}"}
    def fail(name, what):
        res["failed"].append({"name": name, "description": "C16: " + what, "file": _os.path.join(_REPO, "internal/debug.c"), "line": "", "confirmed": False})
    for n in names:
        try:
            body = strip_comments(extract_function(src, n)[2])
        except ExtractError as e:
            return {**res, "status": "infra", "detail": str(e)}
        if n in ("emit_init", "emit_c"):
            continue
        body = body[body.index("{"):]
        res["obligations"] += 1
        bad = re.search(r"(->|\.)\s*(start|pos|len|overflow)\s*(=(?!=)|\+\+|--|[-+*/|&^]=)|(\+\+|--)\s*\w+\s*(->|\.)\s*(pos|len|overflow|start)|->\s*start\s*\[", body)
        bad2 = re.search(r"\bbuf\s*\[|\*\s*buf\b|memcpy|memset|strcpy|sprintf", body)
        if bad or bad2:
            fail(n, f"{n} writes the buffer or its descriptor other than through emit_c ({(bad or bad2).group(0)!r})")
        else:
            res["discharged"] += 1
    for n, inner in (("nsync_mu_debug_state", "emit_mu_state"), ("nsync_cv_debug_state", "emit_cv_state"),
                     ("nsync_mu_debug_state_and_waiters", "emit_mu_state"), ("nsync_cv_debug_state_and_waiters", "emit_cv_state")):
        body = strip_comments(extract_function(src, n)[2])
        res["obligations"] += 1
        if re.search(inner + r"\s*\(\s*emit_init\s*\(\s*&b\s*,\s*buf\s*,\s*n\s*\)", body):
            res["discharged"] += 1
        else:
            fail(n, f"{n} does not hand (buf, n) unchanged to emit_init")
    for n in ("emit_mu_state", "emit_cv_state"):
        body = strip_comments(extract_function(src, n)[2])
        res["obligations"] += 1
        if re.search(r"emit_c\s*\(\s*b\s*,\s*0\s*\)\s*;\s*IGNORE_RACES_END\s*\(\s*\)\s*;\s*return\s*\(\s*b->start\s*\)\s*;\s*\}\s*$", body):
            res["discharged"] += 1
        else:
            fail(n, f"{n} does not end its output with emit_c (b, 0) immediately before returning the buffer")
    res["samples"] = [{"obligation": "emit_waiters", "description": "writes the buffer only through emit_c / emit_print"}]
    if res["failed"]:
        res["status"] = "violation"
    return res


def debug_buf_groups(tags=None, tier="quick"):
    S = ["harness/debug/debug_buf.c"] + RG + ["repo:internal/common.c"]
    D = ["VP_ABSTRACT_QUEUE", "VP_RG_MU", "VP_RG_CV", "VP_MAXLEN=100000"]
    gs = [Group(name="debug.emit_c", srcs=S, entry="h_emit_c", enforce="emit_c", timeout=900, unwind=40, defines=D, tags=tags,
                cbmc_args=["--no-malloc-may-fail"], min_obligations=100),
          Group(name="debug.lemma_emit_sequence", srcs=S, entry="h_emit_sequence", replace=["emit_c"], extra_instrument=["--apply-loop-contracts"],
                timeout=900, unwind=40, defines=D, tags=tags, cbmc_args=["--no-malloc-may-fail"], kind="lemma", min_obligations=100,
                functions=["emit_init"])]
    tu, fmts = make_debug_fmt_tu()
    maxlen = 8 if tier == "thorough" else 5
    for k, (lit, specs) in enumerate(fmts):
        gs.append(Group(name=f"debug.emit_print.fmt{k}", srcs=[tu] + RG + ["repo:internal/common.c"], entry=f"h_fmt_{k}", no_dfcc=True,
                        timeout=900, unwind=64, object_bits=12, defines=D + [f"VP_FMT_MAXLEN={maxlen}"], tags=tags, cbmc_args=["--no-malloc-may-fail"], kind="bounded",
                        bound=f"format literal {lit}: six representative values per %i argument, every 7-character %s string, every buffer length 0..{maxlen}, every position, both overflow states, arbitrary buffer contents; "
                              "loops of emit_print are bounded by the literal / 16 hex digits / 7-character strings and are unwound with unwinding assertions",
                        min_obligations=20, functions=["emit_print"]))
    return gs


# ---------------------------------------------------------------- notes
NOTE_S = ["harness/note/note_all.c", "rg/vp_rg.c", "rg/vp_note.c", "rg/vp_amu.c", "rg/vp_clock.c", "rg/vp_stubs.c", "repo:platform/posix/src/time_rep.c"]
NOTE_DEF = ["VP_RG_NOTE", "VP_RG_WAKER", "VP_WK_LOCKED", "VP_ABSTRACT_MU", "VP_ABSTRACT_QUEUE"]
NOTE_ASSUMED = ["nsync_mu_lock/unlock/trylock and nsync_mu_wait on note_mu obey the ghost contracts of the mutex API (rg/vp_amu.c; C01, C05, C06)",
                "note_notify_child (recursive, walks the child list) is replaced by its contract in the unbounded proofs of notify / nsync_note_notify / "
                "nsync_note_notified_deadline_; its real body is exercised by the bounded tree group only",
                "the constructor's malloc either fails or returns the (pre-registered, private) storage of the new note (harness/note/note_all.c)",
                "rely/guarantee soundness (paper argument)"]


def note_groups(tags=None, which=None):
    def G(name, fn, entry, rep=(), **kw):
        return Group(name=name, srcs=NOTE_S, entry=entry, enforce=fn, replace=list(rep), timeout=600, unwind=60, object_bits=10,
                     defines=NOTE_DEF, tags=tags, assumed=NOTE_ASSUMED, min_obligations=kw.pop("min_obligations", 100), **kw)
    gs = [G("note.new", "nsync_note_new", "h_note_new", ["nsync_note_is_notified"]),
          G("note.notify_static", "notify", "h_notify", ["note_notify_child"]),
          G("note.notified_deadline", "nsync_note_notified_deadline_", "h_notified_deadline", ["notify"]),
          G("note.is_notified", "nsync_note_is_notified", "h_is_notified", ["nsync_note_notified_deadline_"]),
          G("note.notify", "nsync_note_notify", "h_note_notify", ["nsync_note_notified_deadline_", "notify"]),
          G("note.expiry", "nsync_note_expiry", "h_note_expiry"),
          G("note.enqueue", "note_enqueue", "h_note_enqueue"),
          G("note.dequeue", "note_dequeue", "h_note_dequeue", ["nsync_note_notified_deadline_"]),
          G("note.wait", "nsync_note_wait", "h_note_wait", ["nsync_wait_n"])]
    if which is not None:
        gs = [g for g in gs if g.name in which]
    return gs


def note_tree_groups(tags=None):
    S = ["harness/note/note_tree.c", "rg/vp_rg.c", "rg/vp_note.c", "rg/vp_amu.c", "rg/vp_clock_frozen.c", "rg/vp_stubs.c", "repo:internal/dll.c",
         "repo:platform/posix/src/time_rep.c"]
    D = ["VP_SEQUENTIAL", "VP_RG_NOTE", "VP_ABSTRACT_MU", "VP_REAL_SEM"]
    return [Group(name="note.tree." + h[7:], srcs=S, entry=h, no_dfcc=True, kind="bounded", timeout=900, unwind=8, defines=D, object_bits=10, tags=tags,
                  bound="tree R -> {C1 -> {G}, C2} (depth 3, <= 2 children per node) built by the real nsync_note_new, five concrete deadline assignments "
                        "(parent earlier / later / equal / none), sequential execution of the real note.c + dll.c with the clock frozen",
                  min_obligations=100, functions=["note_notify_child", "nsync_note_free", "nsync_note_notify", "nsync_note_new", "nsync_note_expiry"])
            for h in ("h_tree_notify_middle", "h_tree_notify_root", "h_tree_free_middle", "h_tree_born_notified")]


def note_conc_groups(tags=None, tier="quick"):
    S = ["harness/note/note_conc.c", "rg/vp_rg.c", "rg/vp_clock_frozen.c", "rg/vp_stubs.c", "repo:internal/dll.c", "repo:platform/posix/src/time_rep.c"]
    gs = []
    shapes = (0, 1, 2, 3) if tier == "thorough" else (1, 2)
    what = {0: ("notify", "nsync_note_notify (n)", "nsync_note_notify (n), nsync_note_free (P), nsync_note_notify (P), nsync_note_new (P)", 12),
            1: ("free", "nsync_note_free (n)", "nsync_note_notify (P), nsync_note_free (P), nsync_note_notify (child), nsync_note_new (P)", 12),
            2: ("new", "nsync_note_new (n, ...)", "nsync_note_notify (n), nsync_note_free (P), nsync_note_notify (P), nsync_note_new (P)", 6)}
    for ak, (nm, acall, menu, nsites) in what.items():
        for shape in shapes:
            for tf in ((0, 1) if ak != 2 else (0,)):
                for site in range(0, nsites):
                    gs.append(Group(name=f"note.conc.{nm}.s{shape}t{tf}p{site}", srcs=S, entry="h_conc", no_dfcc=True, kind="bounded", timeout=(3600 if tier == "thorough" else 900), unwind=(14 if tier == "thorough" else 8),
                                    defines=["VP_SEQUENTIAL", "VP_REAL_SEM", f"VP_AKIND={ak}", f"VP_SHAPE={shape}", f"VP_TF={tf}", f"VP_SITE={site}"] +
                                            ([f"VP_SITE2_MAX={nsites - 1}"] if tier == "thorough" else []), object_bits=12, tags=tags,
                                    bound=f"family {'grandparent -> ' if shape & 1 else ''}P -> n{' -> child' if shape & 2 else ''} built by the real nsync_note_new; thread A runs "
                                          f"{acall} on the real note.c + dll.c, its first trylock {'fails' if tf else 'succeeds'}; at A's mutex operation number {site} "
                                          f"other threads run one or two complete real calls out of {menu} (all ordered pairs" +
                                          (", the second one at this or at any later mutex operation of A" if tier == "thorough" else "") + "); environment calls that would block are "
                                          "not enabled; clock frozen",
                                    min_obligations=50, cbmc_args=["--no-malloc-may-fail"],
                                    functions=["notify", "note_notify_child", "nsync_note_notify", "nsync_note_free", "nsync_note_new", "nsync_note_notified_deadline_"]))
    return gs


# ---------------------------------------------------------------- sem_wait.c
def sem_wait_groups(tags=None):
    S = ["harness/semwait/sem_wait_all.c", "rg/vp_rg.c", "rg/vp_note.c", "rg/vp_amu.c", "rg/vp_clock.c", "rg/vp_stubs.c", "repo:internal/dll.c",
         "repo:platform/posix/src/time_rep.c"]
    return [Group(name="semwait.sem_wait_with_cancel", srcs=S, entry="h_sem_wait", enforce="nsync_sem_wait_with_cancel_",
                  replace=["nsync_note_notified_deadline_", "nsync_note_notify"], timeout=600, unwind=20, defines=["VP_RG_NOTE", "VP_ABSTRACT_MU", "VP_REAL_SEM"],
                  object_bits=10, tags=tags, min_obligations=200,
                  assumed=["timed semaphore wait as a stub: 0, or ETIMEDOUT only once the clock reached the deadline it was given (C12); while the thread sleeps "
                           "another thread may notify the note (flag set and every waiter removed, under note_mu)",
                           "contracts of nsync_note_notified_deadline_ / nsync_note_notify as proved in the note groups (restated in harness/semwait/sem_wait_all.c)",
                           "the note's waiter list holds at most one other record (the function only touches its own record and its neighbours; list behaviour is C17)"])]
