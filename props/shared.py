"""Obligation groups shared by several properties.  Each property module picks
the groups it depends on and the obligation tags it counts."""
from vp.runner import Group

CHK_NOCONV = ["--bounds-check", "--pointer-check", "--signed-overflow-check", "--div-by-zero-check"]

# ---------------------------------------------------------------- futex semaphore
SEM_S = ["harness/sem/sem_all.c", "rg/vp_rg.c", "rg/vp_sem.c", "rg/vp_stubs.c", "repo:platform/posix/src/time_rep.c"]
SF = ["vp_s.taken", "vp_s.posted", "vp_s.last_load_valid", "vp_s.last_load", "vp_s.futex_timedout", "vp_s.waits", "vp_s.wakes",
      "vp_s.wake_after_post", "vp_s.clock_valid", "vp_s.clock", "vp_s.clock_reads_after_timeout"]
SEM_LOOPS = {
    "nsync_mu_semaphore_p": [{"names": ["s", "i", "f"],
                              "invariants": ["vp_s.taken == __CPROVER_loop_entry(vp_s.taken)", "vp_s.role == 0"],
                              "assigns": SF + ["i", "f->i", "vp_errno"]}],
    "nsync_mu_semaphore_p_with_deadline": [{"names": ["s", "i", "f", "result", "abs_deadline"],
                                            "invariants": ["vp_s.taken == __CPROVER_loop_entry(vp_s.taken)", "vp_s.role == 0", "result == 0"],
                                            "assigns": SF + ["i", "f->i", "vp_errno", "result"]}],
    "nsync_mu_semaphore_v": [{"names": ["f", "old_value"],
                              "invariants": ["vp_s.posted == 0 && vp_s.wakes == 0 && vp_s.wake_after_post == 1 && vp_s.role == 1"],
                              "assigns": SF + ["old_value", "f->i"]}],
}
SEM_ASSUMED = ["futex(2) contract (rg/vp_sem.c): FUTEX_WAIT returns 0 / EINTR / EAGAIN / ETIMEDOUT-only-with-timeout in any order and number; invalid timespec => EINVAL; "
               "compare-and-block atomic w.r.t. FUTEX_WAKE",
               "the variadic libc syscall() is renamed by a macro to a fixed-arity model vp_syscall_futex with the same seven arguments (harness/sem/sem_all.c)",
               "clock_gettime(CLOCK_REALTIME): monotone within one call, normalised, at or after the epoch"]


def sem_groups(tags=None):
    def G(name, fn, entry, loops, **kw):
        return Group(name=name, srcs=SEM_S, entry=entry, enforce=fn, loops=loops, timeout=600, unwind=64, object_bits=11,
                     defines=["VP_RG_SEM", "VP_REAL_SEM"], checks=CHK_NOCONV, tags=tags, assumed=SEM_ASSUMED, min_obligations=50, **kw)
    return [
        G("sem.p", "nsync_mu_semaphore_p", "h_sem_p", {"nsync_mu_semaphore_p": SEM_LOOPS["nsync_mu_semaphore_p"]}),
        G("sem.p_with_deadline", "nsync_mu_semaphore_p_with_deadline", "h_sem_p_deadline",
          {"nsync_mu_semaphore_p_with_deadline": SEM_LOOPS["nsync_mu_semaphore_p_with_deadline"]}),
        G("sem.v", "nsync_mu_semaphore_v", "h_sem_v", {"nsync_mu_semaphore_v": SEM_LOOPS["nsync_mu_semaphore_v"]}),
    ]


def sem_prompt_group(tags=None):
    return Group(name="sem.prompt_timeout", srcs=SEM_S, entry="h_sem_prompt", enforce="nsync_mu_semaphore_p_with_deadline",
                 timeout=600, unwind=64, object_bits=11, defines=["VP_RG_SEM", "VP_REAL_SEM"], checks=CHK_NOCONV, tags=tags,
                 unwind_fn={"nsync_mu_semaphore_p_with_deadline": 2},
                 assumed=SEM_ASSUMED + ["kernel: an absolute futex timeout that has already expired yields ETIMEDOUT at once when *uaddr == val"],
                 min_obligations=50)
