"""C01 — writer exclusion and reader sharing hold on every acquisition path."""
from props.shared import mu_groups, mu_lemmas, cv_groups

ID = "C01"
LEVEL = "proof"
EXPLANATION = (
    "Rely/guarantee proof over the real mutex code. Ghost per thread: hold in {none, reader, writer}, spin (owns the queue spinlock). "
    "Global invariant J = the statement of C01: writer bit = number of writers (<= 1), reader field = number of readers, never both; "
    "spinlock bit = number of owners. Guarantee G (asserted by the hook behind EVERY ATM_* step on the mutex word, after an arbitrary "
    "rely-allowed interference): the lock bits change only by one of the typed transitions acquire-W (needs no holder), acquire-R (needs "
    "no writer), release-W, release-R, last-reader -> writer, writer -> reader; the spinlock is taken only when free and released only by "
    "its owner; a step that neither acquires nor releases changes nothing but MU_WRITER_WAITING. Lemma L-J (loop-free, full domain): every "
    "G-transition preserves J and implies the rely of every other thread. F-f: each function's real body, loops closed by loop contracts, "
    "callees replaced by their contracts, meets its ghost contract: lock => writer, rlock => reader, trylock/rtrylock => held iff "
    "non-zero result, lock_slow => the mode of its lock type (tagged invariant: its acquisition mask keeps every lock bit the type "
    "demands), the timeout re-acquisition of mu_wait.c => the caller's mode or nothing, nsync_mu_wait_with_deadline => the mode held on "
    "entry, unlock/runlock/unlock_without_wakeup => none; nsync_cv_wait_with_deadline_generic => the mode held on entry (nsync_mu in either "
    "mode, re-acquired through lock / rlock / lock_slow as designated waker after a transfer); wake_waiters (the cv waker that CASes the "
    "MUTEX word to transfer waiters) => the caller's hold unchanged, every step a legal transition. The real lock_type tables are shown to satisfy what the proofs assume.")
ASSUMPTIONS = ["semaphore flavours: nsync_mu_semaphore_p/v are stubs with arbitrary effect on the waiter's private state and none on the word, which "
               "over-approximates counting and binary semaphores; deadlines enter only as the arbitrary result of the timed sleep",
               "the waiter queue is abstracted inside word-level proofs (sound over-approximation; exact list behaviour: C17)"]
NOT_DECIDED = ["that the client only releases what it holds (precondition)",
               "nsync_mu_unlock_slow_: callers use its contract; its own body is checked BOUNDED (every loop unwound 4x quick / 6x thorough, arbitrary "
               "interference, abstract queue) because the unbounded dfcc proof exceeds 48 GB; listed under bounded, not counted as proved"]
TRUSTED = []
PARALLEL = 14


def groups(tier):
    return mu_groups(tags=["C01"], tier=tier) + mu_lemmas(tags=["C01"]) + cv_groups(tags=["C01"])
