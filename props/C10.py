"""C10 — the counter is atomic and its waiters are released exactly at zero."""
from props.shared import cnt_groups

ID = "C10"
LEVEL = "proof"
EXPLANATION = (
    "Contracts on every function of the real internal/counter.c, with the value word under rely/guarantee (G: a successful CAS on the "
    "value is made only by the holder of counter_mu, acq_rel; R: the value is frozen while I hold counter_mu, arbitrary otherwise) and "
    "the counter's mutex abstracted by its ghost contract. nsync_counter_add: exactly one successful CAS old -> old+delta under the lock, "
    "the result is that new value; delta == 0 and nsync_counter_value return an acquire load (a value the word held); at zero the waiter "
    "list is empty before the lock is dropped and every record unlinked had its waiting flag cleared (release) and THEN its semaphore "
    "posted, all while holding the lock the waiter's dequeue takes; counter_enqueue refuses (returns 0, waiting = 0) iff the value is 0 "
    "under the lock, counter_dequeue reports 'still queued' iff value != 0 under the lock and leaves the record not waiting; "
    "nsync_counter_wait returns 0 iff nsync_wait_n reported the counter ready or the value then loaded is 0. Both loops of "
    "nsync_counter_add are closed by loop contracts (any number of waiters, abstract queue).")
ASSUMPTIONS = []
NOT_DECIDED = ["'every thread waiting' is proved as 'the list is empty at zero' over the abstract queue; the exact list contents are C17's contract"]
TRUSTED = []


def groups(tier):
    return cnt_groups(tags=["C10", "C03", "C13"])
