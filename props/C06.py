"""C06 — conditional critical sections wake every waiter whose condition became true."""
from props.shared import mu_groups, mu_lemmas, mu_condq_groups, mu_scan_groups

ID = "C06"
LEVEL = "other"
EXPLANATION = (
    "Safety core, on the real code under arbitrary interference. (1) 'A condition is only ever evaluated by a thread that holds the "
    "mutex': the condition is a stub that asserts hold != none; proved for the evaluations of nsync_mu_wait_with_deadline (before the "
    "loop and after every re-acquisition). (2) Hint bits that license skipping the scan: MU_ALL_FALSE is set only by a step of the "
    "queue-spinlock owner; a writer's release by nsync_mu_unlock (fast paths and the uncontended path of the slow path) always clears "
    "it, because that critical section may have made conditions true; nsync_mu_unlock_without_wakeup may leave it set; MU_CONDITION and "
    "MU_WAITING change only under the spinlock, and a conditional waiter sets MU_CONDITION in the very step that takes the spinlock to "
    "enqueue itself (contract of nsync_spin_test_and_set_ as called from nsync_mu_wait_with_deadline). (3) Grouping of 'same condition' "
    "neighbours, which licenses skipping waiters after one false evaluation: nsync_maybe_merge_conditions_ groups two waiters only if they "
    "have the same non-NULL function and identical arguments or condition_arg_eq, applied to their two arguments, says they are equivalent "
    "(loop-free harness over every equality pattern and every answer of condition_arg_eq: complete for one call, real mu.c + dll.c). "
    "(4) BOUNDED: after every sequence of queue operations performed through the real nsync_maybe_merge_conditions_, "
    "nsync_remove_from_mu_queue_, nsync_dll_* in the way their call sites do (enqueue last / first, timeout removal, scan pick-up, wake, "
    "re-join, put back), everything skip_past_same_condition would jump over is equivalent to the waiter whose condition was evaluated, no "
    "record is lost from its queue, rings stay well linked and a record that left the queue is in no group. (5) BOUNDED, the scan itself: the real "
    "nsync_mu_unlock_slow_ on the real dll.c with 1..2 (thorough: 3) queued waiters of every kind (writer / reader x no condition / false / true), caller "
    "holding as writer or as last reader: only waiters without a condition or with a true one are woken; none is dropped; MU_CONDITION stays while "
    "conditional waiters remain; MU_ALL_FALSE is published only if every waiter left has a false condition; a waiter that could proceed is left asleep only "
    "if another was woken and MU_DESIG_WAKER records it.")
LEVEL_TEXT = ("'returns once its condition has been made true' is liveness and is not decided by contracts; the evaluation-under-lock clause and "
              "the hint-bit clauses that make skipping a scan legal are proved (unbounded, all interference), hence level other")
ASSUMPTIONS = ["conditions are pure functions of state protected by the mutex (client precondition)"]
NOT_DECIDED = ["that the woken thread eventually runs", "same_condition ring invariants beyond the stated bound (an unbounded proof needs inductive list predicates that CBMC contracts cannot state)", "the enqueue / re-join steps of the bounded queue scenarios are written in the harness as at the call sites in mu_wait.c and mu.c, not executed through those callers"]
TRUSTED = []
PARALLEL = 14


def groups(tier):
    return mu_groups(tags=["C06"], tier=tier) + mu_lemmas(tags=["C06"]) + mu_condq_groups(tags=["C06"], tier=tier) + mu_scan_groups(tags=["C06"], tier=tier)
