"""Mechanical extraction of C-style function definitions from a source file
(used where CBMC's front end cannot read the whole translation unit, e.g. the
C++ time_rep_timespec.cc which includes <chrono>).  Must-fire rules: every
requested name must be found exactly once, else ExtractError (-> exit 2)."""
import re


class ExtractError(Exception):
    pass


def strip_comments(src):
    def repl(m):
        s = m.group(0)
        if s.startswith('/'):
            return re.sub(r"[^\n]", " ", s)
        return s
    return re.sub(r'//[^\n]*|/\*.*?\*/|"(?:\\.|[^"\\])*"|\'(?:\\.|[^\'\\])*\'', repl, src, flags=re.S)


def extract_function(src, name):
    """Return (start, end, text) of the definition of `name` (return type
    through closing brace), located on comment-stripped text."""
    clean = strip_comments(src)
    pat = re.compile(r"(?m)^[A-Za-z_][^;{}()\n]*?\b" + re.escape(name) + r"\s*\(")
    hits = []
    for m in pat.finditer(clean):
        # find the parameter list end
        i = clean.index("(", m.end() - 1)
        depth = 0
        j = i
        while j < len(clean):
            if clean[j] == "(":
                depth += 1
            elif clean[j] == ")":
                depth -= 1
                if depth == 0:
                    break
            j += 1
        k = j + 1
        while k < len(clean) and clean[k] in " \t\r\n":
            k += 1
        if k >= len(clean) or clean[k] != "{":
            continue   # a declaration or a call, not a definition
        depth = 0
        e = k
        while e < len(clean):
            if clean[e] == "{":
                depth += 1
            elif clean[e] == "}":
                depth -= 1
                if depth == 0:
                    break
            e += 1
        hits.append((m.start(), e + 1))
    if len(hits) != 1:
        raise ExtractError(f"extraction must-fire rule: expected exactly one definition of {name}, found {len(hits)}")
    s, e = hits[0]
    return s, e, src[s:e]


def extract_functions(path, names):
    src = open(path).read()
    return {n: extract_function(src, n)[2] for n in names}


def extract_define(path, name):
    src = open(path).read()
    m = re.findall(r"(?m)^#define\s+" + re.escape(name) + r"\b(.*(?:\\\n.*)*)$", src)
    if len(m) != 1:
        raise ExtractError(f"expected exactly one #define {name} in {path}, found {len(m)}")
    return "#define " + name + m[0]
