"""Property-level driver: runs the obligation groups of one property, decides
held / violation / undecided, replays counterexamples natively where a recipe
exists, honours known_findings.json and writes the evidence file."""
import json, shlex, os, re, shutil, subprocess, sys, time, importlib, glob
from concurrent.futures import ThreadPoolExecutor
from vp.runner import Group, Result, run_group, run, VERIF, REPO, WORK, nsync_includes, abspath

REPLAYS = os.path.join(VERIF, "replays")


def load_known():
    p = os.path.join(VERIF, "known_findings.json")
    if not os.path.exists(p):
        return []
    return json.load(open(p)).get("findings", [])


def match_known(prop, group, ob, known):
    for k in known:
        if k.get("status") != "open" or k.get("property") != prop:
            continue
        if k.get("group") and k["group"] != group:
            continue
        if k.get("obligation_re") and not re.search(k["obligation_re"], ob["description"]):
            continue
        if k.get("function") and k["function"] != ob.get("function"):
            continue
        if k.get("file_re") and not re.search(k["file_re"], ob.get("file", "")):
            continue
        return k
    return None


def nondet_script(trace):
    vals = []
    for s in trace or []:
        if s.get("stepType") != "assignment" or s.get("hidden"):
            continue
        lhs = s.get("lhs", "")
        m = re.match(r"return_value_nondet_vp_(u32|i32|i64|u64|bool)(\$\d+)?$", lhs)
        if not m:
            continue
        v = s.get("value", {})
        d = v.get("data")
        if d is None:
            continue
        d = str(d)
        if d in ("TRUE", "true"):
            d = "1"
        elif d in ("FALSE", "false"):
            d = "0"
        d = re.sub(r"[uUlL]+$", "", d)
        vals.append((m.group(1), d))
    return vals


def trace_excerpt(trace, limit=400):
    out = []
    for s in trace or []:
        if s.get("hidden"):
            continue
        t = s.get("stepType")
        loc = s.get("sourceLocation", {})
        where = f"{os.path.basename(loc.get('file',''))}:{loc.get('line','')}"
        if t == "assignment":
            lhs = s.get("lhs", "")
            if lhs.startswith("__") or "write_set" in lhs or "contract" in lhs:
                continue
            out.append(f"{where} {lhs} = {s.get('value',{}).get('data')}")
        elif t == "function-call":
            out.append(f"{where} call {s.get('function',{}).get('displayName')}")
        elif t == "failure":
            out.append(f"{where} FAILURE {s.get('reason')}")
    return out[-limit:]


def native_replay(prop, g: Group, ob, rdir):
    """Compile the same harness and the real sources natively and feed it the
    verifier's nondet values.  Returns (confirmed, text)."""
    if not g.replay:
        return False, "no native replay recipe for this group"
    script = nondet_script(ob.get("trace"))
    with open(os.path.join(rdir, "script.txt"), "w") as f:
        for ty, v in script:
            f.write(f"{ty} {v}\n")
    exe = os.path.join(rdir, "replay.exe")
    cmd = ["gcc", "-g", "-O0", "-fsanitize=address,undefined", "-fno-sanitize-recover=undefined",
           "-DVP_NATIVE=1", "-DGOOGLE_NSYNC_VERIF=1", "-DVP_ENTRY=" + g.entry, "-o", exe]
    cmd += ["-D" + d for d in g.defines]
    for i in nsync_includes():
        cmd += ["-I", i]
    cmd += [abspath(s) for s in g.srcs] + [os.path.join(VERIF, "rg/vp_native.c")]
    cmd += ["-lpthread"]
    with open(os.path.join(rdir, "build.sh"), "w") as f:
        f.write("#!/bin/sh\n" + " ".join(shlex.quote(c) for c in cmd) + "\n" + exe + " " + os.path.join(rdir, "script.txt") + "\n")
    rc, out, err, _ = run(cmd, 120, mem_gb=None)
    if rc != 0:
        return False, "native build failed:\n" + err[-3000:]
    rc, out, err, _ = run([exe, os.path.join(rdir, "script.txt")], 60, mem_gb=None)
    txt = out + err
    with open(os.path.join(rdir, "native_output.txt"), "w") as f:
        f.write(txt)
    confirmed = ("REPLAY-CONFIRMED" in txt) or ("AddressSanitizer" in txt) or ("runtime error" in txt) or rc in (-11, 139)
    return confirmed, txt[-3000:]


def write_replay(prop, g: Group, res: Result, ob, idx):
    rdir = os.path.join(REPLAYS, prop, f"{g.name}-{idx}")
    shutil.rmtree(rdir, ignore_errors=True)
    os.makedirs(rdir, exist_ok=True)
    info = {"property": prop, "group": g.name, "function_under_contract": g.enforce,
            "failed_obligation": {k: ob.get(k) for k in ("name", "description", "file", "line", "function", "status")},
            "checker_cmd": res.cmd, "backend": res.backend,
            "verifier_trace_excerpt": trace_excerpt(ob.get("trace"))}
    confirmed, txt = native_replay(prop, g, ob, rdir)
    info["native_replay_confirmed"] = confirmed
    info["native_replay_output"] = txt
    with open(os.path.join(rdir, "obligation.json"), "w") as f:
        json.dump(info, f, indent=1)
    # keep the verifier's own log next to it
    try:
        shutil.copy(os.path.join(res.workdir, "cbmc.log"), os.path.join(rdir, "cbmc_output.json"))
    except Exception:
        pass
    return rdir, confirmed


def scan_assumptions(g: Group):
    """Mechanical scan: every __CPROVER_assume and assumed-contract marker in
    the /verif sources this group links."""
    found = []
    for s in g.srcs:
        p = abspath(s)
        if not p.startswith(VERIF):
            continue
        try:
            for n, line in enumerate(open(p), 1):
                m = re.search(r"VP-ASSUMED:\s*(.*?)\s*(\*/)?$", line)
                if m:
                    found.append(m.group(1).strip())
        except Exception:
            pass
    return found


def run_property(mod, tier, seed):
    prop = mod.ID
    t0 = time.time()
    known = load_known()
    groups = [g for g in mod.groups(tier) if tier == "thorough" or g.tier == "quick"]
    heavy = max(1, min(getattr(mod, "PARALLEL", 8), 16))
    results = []
    with ThreadPoolExecutor(max_workers=heavy) as ex:
        futs = [(g, ex.submit(run_group, g, prop)) for g in groups]
        for g, f in futs:
            results.append((g, f.result()))
    extra = []
    if hasattr(mod, "extra_checks"):
        extra = mod.extra_checks(tier)   # list of dicts: name,status,obligations,discharged,detail,backend,seconds,samples,failed

    violations = []
    known_lines = []
    infra = []
    undecided = []
    obligations = discharged = 0
    b_obl = b_dis = 0
    bounded = []
    samples = []
    groups_ev = []
    solver_s = 0.0
    more_failed = 0
    functions = []
    assumptions = list(getattr(mod, "ASSUMPTIONS", []))
    for g, r in results:
        for f in g.functions or ([g.enforce] if g.enforce else []):
            if f not in functions:
                functions.append(f)
        for a in g.assumed + scan_assumptions(g):
            if a not in assumptions:
                assumptions.append(a)
        solver_s += r.solver_seconds
        kf_here = 0
        idx = 0
        for ob in r.failed:
            k = match_known(prop, g.name, ob, known)
            if k:
                kf_here += 1
                line = f"KNOWN-FINDING: property={prop} {k['what']}"
                if line not in known_lines:
                    known_lines.append(line)
                continue
            idx += 1
            if idx > 3 or len(violations) >= 12:      # at most 3 replays per group and 12 per run; the evidence file counts all failures
                more_failed += 1
                continue
            rdir, confirmed = write_replay(prop, g, r, ob, idx)
            violations.append((g, ob, rdir, confirmed))
        if r.status == "infra":
            infra.append((g, r))
        elif r.status == "undecided":
            undecided.append((g, r))
        if g.kind == "bounded":
            b_obl += r.obligations
            b_dis += r.discharged
            bounded.append({"group": g.name, "bound": g.bound, "obligations": r.obligations, "passed": r.discharged})
        else:
            obligations += r.obligations
            discharged += r.discharged + kf_here * 0
        for s in r.samples[:: max(1, len(r.samples) // 4)][:4]:
            samples.append({"group": g.name, "obligation": s["name"], "description": s["description"],
                            "where": f"{s['file'].replace(REPO + '/', '')}:{s['line']}"})
        groups_ev.append({"group": g.name, "kind": g.kind, "function_under_contract": g.enforce,
                          "callees_replaced_by_contract": g.replace, "loop_contracts": sorted(g.loops.keys()) if g.loops else [],
                          "status": r.status, "obligations": r.obligations, "discharged": r.discharged,
                          "loop_invariant_obligations": r.loop_obligations,
                          "backend": r.backend, "seconds": round(r.seconds, 2), "solver_seconds": round(r.solver_seconds, 2),
                          "detail": r.detail[:400], "cmd": r.cmd})
    for e in extra:
        solver_s += e.get("seconds", 0)
        if e["status"] == "infra":
            infra.append((None, e))
        for ob in e.get("failed", []):
            k = match_known(prop, e["name"], ob, known)
            if k:
                line = f"KNOWN-FINDING: property={prop} {k['what']}"
                if line not in known_lines:
                    known_lines.append(line)
                continue
            rdir = os.path.join(REPLAYS, prop, e["name"])
            shutil.rmtree(rdir, ignore_errors=True)
            os.makedirs(rdir, exist_ok=True)
            json.dump({"property": prop, "group": e["name"], "failed_obligation": ob,
                       "checker_output": e.get("detail", "")}, open(os.path.join(rdir, "obligation.json"), "w"), indent=1)
            violations.append((None, ob, rdir, bool(ob.get("confirmed"))))
        if e.get("kind") == "bounded":
            b_obl += e["obligations"]; b_dis += e["discharged"]
            bounded.append({"group": e["name"], "bound": e.get("bound", ""), "obligations": e["obligations"], "passed": e["discharged"]})
        else:
            obligations += e["obligations"]
            discharged += e["discharged"]
        for s in e.get("samples", [])[:3]:
            samples.append({"group": e["name"], **s})
        groups_ev.append({"group": e["name"], "kind": e.get("kind", "lemma"), "status": e["status"],
                          "obligations": e["obligations"], "discharged": e["discharged"], "backend": e.get("backend", ""),
                          "seconds": round(e.get("seconds", 0), 2), "detail": e.get("detail", "")[:400], "cmd": e.get("cmd", "")})

    for l in known_lines:
        print(l)
    rc = 0
    for g, ob, rdir, confirmed in violations:
        suffix = "" if confirmed else " no-failing-input-found"
        print(f"VIOLATION property={prop} replay={rdir}{suffix}")
        print(f"  failed obligation: [{ob.get('name')}] {ob.get('description')} @ {ob.get('file','')}:{ob.get('line','')}"
              + (f" (group {g.name}, function under contract {g.enforce})" if g else ""))
        rc = 1
    if more_failed:
        print(f"  ({more_failed} further failed obligations of the same run are not replayed separately; see the per-group cbmc logs under {WORK}/{prop})")
    if rc == 0 and (infra or undecided):
        rc = 2
        for g, r in infra:
            nm = g.name if g else r["name"]
            det = r.detail if g else r.get("detail", "")
            print(f"INFRA property={prop} group={nm}: {det[:600]}")
        for g, r in undecided:
            print(f"UNDECIDED property={prop} group={g.name}: {r.detail[:600]}")
    wall = time.time() - t0
    level = mod.LEVEL
    cov = {"obligations": obligations, "discharged": discharged,
           "checker_cmd": "goto-cc <real sources + contracts + harness> ; goto-instrument --dfcc H --enforce-contract f "
                          "[--replace-call-with-contract g]* [--loop-contracts-file L --apply-loop-contracts] ; "
                          "cbmc --unwind U --unwinding-assertions <checks> (per group: see groups[].cmd)",
           "trusted_base": getattr(mod, "TRUSTED", []) + ["CBMC 6.11.0 (goto-cc, goto-instrument --dfcc, cbmc) and its SAT/SMT back ends",
                                                          "goto-cc C semantics (LP64, two's complement)"],
           "explanation": mod.EXPLANATION,
           "functions_under_contract": functions,
           "groups": groups_ev,
           "bounded": bounded,
           "bounded_obligations_not_counted_as_proved": b_obl,
           "solver_seconds_total": round(solver_s, 2),
           "samples": samples[:12],
           "known_findings_reported": known_lines,
           "not_decided": getattr(mod, "NOT_DECIDED", [])}
    ev = {"property_id": prop, "tier": tier, "seed": seed, "level": level, "coverage": cov,
          "assumptions": assumptions, "wall_s": round(wall, 2), "violations": len(violations)}
    # evidence is only ever written for /repo itself; runs against a scratch copy (VP_REPO=...) go elsewhere
    evdir = os.path.join(VERIF, "evidence") if os.path.realpath(REPO) == "/repo" else os.path.join(WORK, "evidence_scratch")
    os.makedirs(evdir, exist_ok=True)
    with open(os.path.join(evdir, prop + ".json"), "w") as f:
        json.dump(ev, f, indent=1)
    print(f"{prop}: {'HELD' if rc == 0 else 'VIOLATION' if rc == 1 else 'UNDECIDED/INFRA'} "
          f"obligations={obligations} discharged={discharged} bounded={b_obl} groups={len(groups_ev)} wall={wall:.1f}s")
    return rc
