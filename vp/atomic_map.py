"""Textual obligation for C03: the platform atomic.h headers map each ATM_*
suffix to a C11/C++11/GCC memory order at least as strong as its name.  These
headers are data (eight macro bodies and four helper functions), not control
flow.  Must-fire: every macro / helper must be found exactly once per header,
otherwise the obligation is undecided (exit 2), never a violation."""
import os, re
from vp.extract import strip_comments

STRENGTH = {"relaxed": 0, "acquire": 1, "release": 1, "acq_rel": 2, "seq_cst": 3}
TOK = re.compile(r"(?:__ATOMIC_|memory_order_)(RELAXED|ACQUIRE|RELEASE|ACQ_REL|SEQ_CST|relaxed|acquire|release|acq_rel|seq_cst)")

def order_ok(kind, order):
    order = order.lower()
    if kind == "acq":
        return order in ("acquire", "acq_rel", "seq_cst")
    if kind == "rel":
        return order in ("release", "acq_rel", "seq_cst")
    if kind == "relacq":
        return order in ("acq_rel", "seq_cst")
    return True

class MapError(Exception):
    pass

def check_header(path):
    """returns list of (macro, order, ok)"""
    src = strip_comments(open(path).read())
    out = []
    helpers = {}
    for m in re.finditer(r"static\s+\w+\s+int\s+atm_cas_(\w+?)_u32_\s*\([^)]*\)\s*\{(.*?)\n\}", src, re.S):
        toks = TOK.findall(m.group(2))
        if len(toks) != 2:
            raise MapError(f"{path}: helper atm_cas_{m.group(1)}_u32_ does not name exactly two memory orders")
        helpers.setdefault(m.group(1), []).append(toks[0])   # success order
    for h in ("nomb", "acq", "rel", "relacq"):
        if len(helpers.get(h, [])) != 1:
            raise MapError(f"{path}: expected exactly one helper atm_cas_{h}_u32_, found {len(helpers.get(h, []))}")
    def macro(name):
        ms = re.findall(r"(?m)^#define\s+" + name + r"\s*\(([^)]*)\)\s+(.*)$", src)
        if len(ms) != 1:
            raise MapError(f"{path}: expected exactly one #define {name}, found {len(ms)}")
        return ms[0][1]
    for name, kind in (("ATM_CAS", "nomb"), ("ATM_CAS_ACQ", "acq"), ("ATM_CAS_REL", "rel"), ("ATM_CAS_RELACQ", "relacq")):
        body = macro(name)
        m = re.search(r"ATM_CAS_HELPER_\s*\(\s*(\w+)\s*,", body)
        if not m:
            raise MapError(f"{path}: {name} does not go through ATM_CAS_HELPER_")
        order = helpers[m.group(1)][0] if m.group(1) in helpers else None
        if order is None:
            raise MapError(f"{path}: {name} uses unknown helper {m.group(1)}")
        out.append((name, order.lower(), order_ok(kind, order)))
    hb = macro("ATM_CAS_HELPER_") if re.search(r"#define\s+ATM_CAS_HELPER_", src) else None
    if hb is None or "atm_cas_##barrier##_u32_" not in hb.replace(" ", ""):
        raise MapError(f"{path}: ATM_CAS_HELPER_ does not paste its barrier argument into atm_cas_<barrier>_u32_")
    for name, kind in (("ATM_LOAD", "none"), ("ATM_LOAD_ACQ", "acq"), ("ATM_STORE", "none"), ("ATM_STORE_REL", "rel")):
        toks = TOK.findall(macro(name))
        if len(toks) != 1:
            raise MapError(f"{path}: {name} does not name exactly one memory order")
        out.append((name, toks[0].lower(), order_ok(kind, toks[0])))
    return out

def check_all(repo):
    res = {"obligations": 0, "discharged": 0, "failed": [], "samples": [], "status": "held", "detail": ""}
    try:
        for h in ("platform/gcc_new/atomic.h", "platform/c11/atomic.h", "platform/c++11/atomic.h"):
            for name, order, ok in check_header(os.path.join(repo, h)):
                res["obligations"] += 1
                if ok:
                    res["discharged"] += 1
                    if len(res["samples"]) < 3:
                        res["samples"].append({"obligation": f"{h}:{name}", "description": f"maps to memory order {order}"})
                else:
                    res["failed"].append({"name": f"{h}:{name}", "file": os.path.join(repo, h), "line": "", "confirmed": True,
                                          "description": f"C03: {name} in {h} requests memory order '{order}', weaker than its suffix promises"})
        g = strip_comments(open(os.path.join(repo, "platform/gcc/atomic.h")).read())
        res["obligations"] += 1
        if re.search(r'#else\s*#include\s+"\.\./gcc_new/atomic\.h"', g):
            res["discharged"] += 1
        else:
            raise MapError("platform/gcc/atomic.h: dispatch to ../gcc_new/atomic.h for GCC >= 4.7 not found")
    except MapError as e:
        res["status"] = "infra"; res["detail"] = str(e)
        return res
    if res["failed"]:
        res["status"] = "violation"
    return res
