#!/usr/bin/env python3
"""store_seed.py <seed-id> <property> <agent OUT dir> <needs> : copies a verified seeded change into /verif/seeded/<seed-id>/"""
import sys, os, shutil, json
sid, prop, src, needs = sys.argv[1:5]
dst = os.path.join(os.path.dirname(os.path.dirname(os.path.abspath(__file__))), "seeded", sid)
shutil.rmtree(dst, ignore_errors=True)
os.makedirs(dst)
for f in os.listdir(src):
    p = os.path.join(src, f)
    if os.path.isfile(p) and os.path.getsize(p) < 400000 and not f.endswith(".log"):
        shutil.copy(p, dst)
meta = {"seed": sid, "breaks_property": prop, "needs_to_manifest": needs,
        "what_i_ran": ["git worktree of /repo at HEAD + git apply patch.diff; cmake -G Ninja; ctest -j8: 26/26 passed with the change",
                       "the agent's demo (run.sh / demo.sh) in a fresh worktree: exit 0 on the clean tree, exit 1 with the change"],
        "detected_by": []}
json.dump(meta, open(os.path.join(dst, "meta.json"), "w"), indent=1)
print("stored", dst, os.listdir(dst))
