#!/usr/bin/env python3
"""Regenerates MANIFEST.json from the property modules present in props/ and
the fixed not-applicable table below."""
import json, os, sys, importlib
sys.path.insert(0, os.path.dirname(os.path.dirname(os.path.abspath(__file__))))
V = os.path.dirname(os.path.dirname(os.path.abspath(__file__)))
ALL = ["C%02d" % i for i in range(1, 20)]
NA = {}
checks = []
na = []
for pid in ALL:
    try:
        m = importlib.import_module("props." + pid)
    except ModuleNotFoundError:
        na.append({"property_id": pid, "reason": NA.get(pid, "not yet under contract in this revision of /verif (see DESIGN.md section 10); no check is claimed")})
        continue
    c = {"property_id": pid,
         "quick_cmd": f"./check {pid} --tier quick",
         "thorough_cmd": f"./check {pid} --tier thorough",
         "evidence_file": f"/verif/evidence/{pid}.json",
         "replay_cmd_template": f"./check {pid} --replay {{path}}",
         "engine": "cbmc-contracts",
         "level_claimed": {"category": m.LEVEL, "text": m.LEVEL_TEXT if hasattr(m, "LEVEL_TEXT") else m.EXPLANATION[:600], "design_ref": "DESIGN.md section 6, " + pid},
         "level_note": "; ".join(getattr(m, "ASSUMPTIONS", []))[:1500] or "CBMC and its back ends",
         "technique": getattr(m, "TECHNIQUE", "contract-based deductive verification: CBMC 6.11 code contracts (goto-instrument --dfcc) on the real translation units")}
    checks.append(c)
man = {"version": 1,
       "setup_cmd": "true",
       "hooks": {"guard": "GOOGLE_NSYNC_VERIF",
                 "enable": "no hooks in /repo: contracts are attached to redeclarations in /verif/contracts, loop contracts come from a side file, "
                           "and the atomic layer is selected by include path (/verif/platform/cprover/atomic.h), nsync's own porting seam; "
                           "-DGOOGLE_NSYNC_VERIF is defined only when compiling /verif sources",
                 "baseline_off_cmd": "cd /repo && cmake -G Ninja -B _build >/dev/null && cmake --build _build >/dev/null && ctest --test-dir _build -j8 --timeout 900",
                 "source_commits": [], "add_only": True},
       "engines": [{"name": "cbmc-contracts", "path": "/verif/check", "serves_properties": [c["property_id"] for c in checks],
                    "kind_free_text": "goto-cc on the real nsync sources + contracts on redeclarations; goto-instrument --dfcc enforce/replace + loop contracts; cbmc SAT / cvc5; z3 for spec-level LIA lemmas; native gcc replay of counterexamples"}],
       "checks": checks,
       "not_applicable": na,
       "notes": "exit 0 held; exit 1 VIOLATION line(s); exit 2 undecided/infrastructure (timeout, extraction or loop-structure mismatch) and never a VIOLATION line. Fix commits in /repo are listed in known_findings.json."}
json.dump(man, open(os.path.join(V, "MANIFEST.json"), "w"), indent=1)
print("claimed:", [c["property_id"] for c in checks])
