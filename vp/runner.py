"""Obligation-group runner for the nsync contract proofs.

One Group = (sources, harness entry, function under contract, callees replaced
by their contracts, loop-contract set, cbmc flags).  run_group() rebuilds the
goto binary from /repo's working tree, instruments the contracts with
goto-instrument --dfcc, runs cbmc and classifies every obligation.
"""
import json, os, re, shutil, subprocess, sys, time, resource, hashlib
from dataclasses import dataclass, field
from typing import List, Optional, Dict, Callable

VERIF = os.path.dirname(os.path.dirname(os.path.abspath(__file__)))
REPO = os.environ.get("VP_REPO", "/repo")
WORK = os.path.join(VERIF, ".work")

# include path of the real C build on linux/x86_64/gcc, with the verification
# port of atomic.h in front (platform/gcc/atomic.h is the only header shadowed)
def nsync_includes():
    return [os.path.join(VERIF, "platform/cprover"),
            os.path.join(VERIF, "rg"),
            os.path.join(VERIF, "contracts"),
            os.path.join(REPO, "platform/linux"),
            os.path.join(REPO, "platform/gcc"),
            os.path.join(REPO, "platform/posix"),
            os.path.join(REPO, "platform/x86_64"),
            os.path.join(REPO, "public"),
            os.path.join(REPO, "internal"),
            # only for wrapper TUs that textually #include an unmodified .c file
            os.path.join(REPO, "platform/linux/src"),
            os.path.join(REPO, "platform/posix/src")]


@dataclass
class Group:
    name: str
    srcs: List[str]                       # paths relative to /verif (harness, rg) or absolute
    entry: str                            # harness function (dfcc entry point)
    enforce: Optional[str] = None         # function whose real body is checked against its contract
    replace: List[str] = field(default_factory=list)   # callees replaced by their contracts
    loops: Optional[dict] = None          # loop contracts: {function: [ {invariants, assigns, decreases}, ...]}
    remove_bodies: List[str] = field(default_factory=list)
    defines: List[str] = field(default_factory=list)
    cbmc_args: List[str] = field(default_factory=list)
    checks: List[str] = field(default_factory=lambda: ["--bounds-check", "--pointer-check",
                                                       "--signed-overflow-check", "--div-by-zero-check"])
    solver: str = "sat"                   # sat | cadical | cvc5 | z3
    unwind: int = 12
    unwindset: List[str] = field(default_factory=list)
    pre_unwind_partial: bool = False      # pre-unwinding WITHOUT unwinding assertions (paths beyond the bound are cut): bounded groups only
    pre_unwind: Dict[str, tuple] = field(default_factory=dict)  # fn -> ([textual loop indexes], k): unwound statically (with unwinding
                                          # assertions) by goto-instrument BEFORE contract instrumentation (loops nested in a contract loop)
    unwind_fn: Dict[str, int] = field(default_factory=dict)   # per-function loop bound; ids are read from the instrumented binary
    object_bits: Optional[int] = None
    kind: str = "proof"                   # proof | bounded | lemma
    bound: str = ""                       # text describing the bound when kind == bounded
    tags: Optional[List[str]] = None      # property tags whose obligations this run counts (None = all)
    min_obligations: int = 1
    timeout: int = 600
    mem_gb: int = 16
    tier: str = "quick"                   # quick groups run in both tiers; thorough only in thorough
    functions: List[str] = field(default_factory=list)   # functions under contract (for evidence)
    assumed: List[str] = field(default_factory=list)     # assumed contracts / stubs this group rests on
    invariant_is_property: bool = False   # loop-invariant step failures count as property failures
    malloc_may_fail: bool = False
    extra_instrument: List[str] = field(default_factory=list)
    enforce_rec: bool = False             # the function under contract is recursive: recursive calls are replaced by its own contract
    oldstyle: bool = False                # goto-instrument's static (non-dfcc) contract instrumentation: used where dfcc's
                                          # dynamic write-set checks make symbolic execution intractable (pointer locals havoced by a loop contract)
    no_dfcc: bool = False                 # plain harness (spec-level lemma), no contract instrumentation
    replay: Optional[str] = None          # name of native replay recipe
    no_unwinding_assertions: bool = False # bounded fallback only
    need_canary: bool = True              # harness must end with VP_CANARY() and it must be reachable


@dataclass
class Result:
    group: str
    status: str                 # held | violation | undecided | infra
    obligations: int = 0
    discharged: int = 0
    failed: List[dict] = field(default_factory=list)       # property obligations that failed
    aux_failed: List[dict] = field(default_factory=list)   # auxiliary obligations that failed
    seconds: float = 0.0
    solver_seconds: float = 0.0
    backend: str = ""
    detail: str = ""
    cmd: str = ""
    samples: List[dict] = field(default_factory=list)
    kind: str = "proof"
    bound: str = ""
    trace: Optional[list] = None
    workdir: str = ""
    loop_obligations: int = 0
    canaries: int = 0


AUX_PATTERNS = [
    r"^Check invariant before entry for loop",
    r"^Check invariant after step for loop",
    r"^Check loop invariant before entry",          # static (non-dfcc) instrumentation
    r"^Check that loop invariant is preserved",
    r"^Check that loop instrumentation was not truncated",
    r"^Check step was unwound for loop",
    r"^Check decreases clause",
    r"^Check variant decreases",
    r"^Check that .* is assignable",
    r"^Check that the assigns clause of .* is included in the caller's assigns clause",
    r"^Check that the frees clause of .* is included in the caller's frees clause",
    r"^Check that .* is valid",            # assigns-clause target validity
    r"^Check that .* is freeable",
    r"^unwinding assertion",
    r"^recursion unwinding assertion",
    r"^VP-AUX:",
    r"no body for callee",
    r"^Check that loop instrumentation was not truncated",
    r"^Check that requires do not allocate or deallocate",
    r"^Check that ensures do not allocate or deallocate",
]
AUX_RE = [re.compile(p) for p in AUX_PATTERNS]
INV_STEP_RE = re.compile(r"^Check invariant after step for loop|^Check that loop invariant is preserved")
TAG_RE = re.compile(r"^(C\d\d(?:/C\d\d)*):")


def is_aux(desc: str) -> bool:
    return any(r.search(desc) for r in AUX_RE)


def _limits(mem_gb):
    def f():
        if mem_gb:
            b = mem_gb * (1 << 30)
            resource.setrlimit(resource.RLIMIT_AS, (b, b))
        os.setsid()
    return f


def run(cmd, timeout, mem_gb=16, cwd=None, log=None):
    t0 = time.time()
    try:
        p = subprocess.run(cmd, cwd=cwd, capture_output=True, text=True, timeout=timeout,
                           preexec_fn=_limits(mem_gb))
        rc, out, err = p.returncode, p.stdout, p.stderr
    except subprocess.TimeoutExpired as e:
        rc, out, err = -999, (e.stdout or b"").decode(errors="replace") if isinstance(e.stdout, bytes) else (e.stdout or ""), "TIMEOUT"
    dt = time.time() - t0
    if log:
        with open(log, "w") as f:
            f.write("$ " + " ".join(cmd) + "\n")
            f.write(out)
            f.write("\n--- stderr ---\n")
            f.write(err if isinstance(err, str) else err.decode(errors="replace"))
    return rc, out, err, dt


def abspath(p):
    if os.path.isabs(p):
        return p
    if p.startswith("repo:"):
        return os.path.join(REPO, p[5:])
    return os.path.join(VERIF, p)


def gen_loop_contracts(g: Group, gb: str, wd: str, dfcc_cmd):
    """Resolve source-level names in the loop-contract spec to CBMC's mangled
    symbols and write the JSON side file.  Raises Infra on any mismatch.
    Loop ids are those goto-instrument --dfcc itself uses: it first drops the
    do{}while(0) pseudo-loops of ASSERT macros and renumbers, so the ids are
    read from a preliminary instrumentation pass without loop contracts."""
    pre = os.path.join(wd, "pre.gb")
    rc, out, err, _ = run(dfcc_cmd + [gb, pre], 600, mem_gb=g.mem_gb, cwd=wd)
    if rc != 0:
        raise Infra("preliminary dfcc pass failed: " + (err or out)[-2000:])
    rc, outp, err, _ = run(["goto-instrument", "--show-loops", pre], 120)
    outp = outp.replace("_wrapped_for_contract_checking", "")
    real: Dict[str, set] = {}
    for m in re.finditer(r"^Loop (\S+?)\.(\d+):\n\s+file \S+ line (\d+)", outp, re.M):
        real.setdefault(m.group(1), set()).add(int(m.group(3)))
    # the contracts file is keyed by the ORIGINAL numbering (by back-edge position, inner loops first); the spec
    # lists the real loops in order of the source line cbmc reports for them
    rc, out, err, _ = run(["goto-instrument", "--show-loops", gb], 120)
    loops_per_fn: Dict[str, List[str]] = {}
    tmp: Dict[str, list] = {}
    for m in re.finditer(r"^Loop (\S+?)\.(\d+):\n\s+file \S+ line (\d+)", out, re.M):
        if int(m.group(3)) in real.get(m.group(1), set()):
            tmp.setdefault(m.group(1), []).append((int(m.group(3)), int(m.group(2))))
    for fn, lst in tmp.items():
        loops_per_fn[fn] = [str(i) for (_, i) in sorted(lst)]
    rc, sym, err, _ = run(["goto-instrument", "--show-symbol-table", gb], 120)
    symbols = re.findall(r"^Symbol\.*: (\S+)", sym, re.M)
    functions = {}
    for fn, spec in g.loops.items():
        have = loops_per_fn.get(fn, [])
        if len(have) != len(spec):
            raise Infra(f"loop-count mismatch in {fn}: contract file expects {len(spec)} loops, "
                        f"binary has {len(have)} (structural edit: proof needs maintenance)")
        locs = [s for s in symbols if s.startswith(fn + "::")]
        entries = []
        for idx, lc in enumerate(spec):
            if lc is None:
                continue
            names = lc.get("names", [])
            smap = []
            for nm in names:
                cands = [s for s in locs if s.split("::")[-1] == nm]
                want = lc.get("pick", {}).get(nm)
                if want is not None:
                    cands = [c for c in cands if c == fn + "::" + want]
                if len(cands) != 1:
                    raise Infra(f"loop contract for {fn} loop #{idx}: local '{nm}' resolves to {cands}")
                smap.append(f"{nm},{cands[0]}")
            e = {"loop_id": have[idx],
                 "invariants": " && ".join("(" + i + ")" for i in lc["invariants"])}
            if smap:
                e["symbol_map"] = ";".join(smap)
            if lc.get("assigns"):
                e["assigns"] = ",".join(lc["assigns"])
            if lc.get("decreases"):
                e["decreases"] = lc["decreases"]
            entries.append(e)
        functions[fn] = entries
    path = os.path.join(wd, "loops.json")
    data = {"sources": [], "functions": [{fn: entries} for fn, entries in functions.items()], "output": "OUTPUT"}
    with open(path, "w") as f:
        json.dump(data, f, indent=1)
    return path


K_FALLBACK = 3


class Infra(Exception):
    pass


def _run_group_once(g: Group, prop: str, keep_trace=True, sub="") -> Result:
    wd = os.path.join(WORK, prop, g.name + sub)
    shutil.rmtree(wd, ignore_errors=True)
    os.makedirs(wd, exist_ok=True)
    t0 = time.time()
    res = Result(group=g.name, status="infra", kind=g.kind, bound=g.bound, workdir=wd)
    try:
        a = os.path.join(wd, "a.gb")
        cmd = ["goto-cc", "-o", a, "--function", g.entry, "-DVP_CPROVER=1", "-DGOOGLE_NSYNC_VERIF=1"]
        cmd += ["-D" + d for d in g.defines]
        for i in nsync_includes():
            cmd += ["-I", i]
        cmd += [abspath(s) for s in g.srcs]
        rc, out, err, dt = run(cmd, 300, cwd=wd, log=os.path.join(wd, "goto-cc.log"))
        if rc != 0:
            raise Infra("goto-cc failed: " + (err or out)[-2000:])
        cur = a
        if g.remove_bodies:
            b = os.path.join(wd, "rb.gb")
            cmd = ["goto-instrument"] + sum([["--remove-function-body", f] for f in g.remove_bodies], []) + [cur, b]
            rc, out, err, dt = run(cmd, 300, cwd=wd, log=os.path.join(wd, "rmbody.log"))
            if rc != 0:
                raise Infra("remove-function-body failed: " + (err or out)[-2000:])
            cur = b
        if g.pre_unwind:
            rc, out, err, _ = run(["goto-instrument", "--show-loops", cur], 120)
            per = {}
            for m in re.finditer(r"^Loop (\S+?)\.(\d+):\n\s+file \S+ line (\d+)", out, re.M):
                per.setdefault(m.group(1), []).append((int(m.group(3)), int(m.group(2))))
            uws = []
            for fn, (idxs, k) in g.pre_unwind.items():
                lst = sorted(per.get(fn, []))
                for ix in idxs:
                    if ix >= len(lst):
                        raise Infra(f"pre-unwind: {fn} has only {len(lst)} loops (structural edit: proof needs maintenance)")
                    uws.append(f"{fn}.{lst[ix][1]}:{k}")
            u = os.path.join(wd, "u.gb")
            rc, out, err, dt = run(["goto-instrument", "--unwindset", ",".join(uws)] + ([] if g.pre_unwind_partial else ["--unwinding-assertions"]) + [cur, u], 300, cwd=wd,
                                   log=os.path.join(wd, "preunwind.log"))
            if rc != 0:
                raise Infra("pre-unwind failed: " + (err or out)[-2000:])
            cur = u
        if not g.no_dfcc:
            b = os.path.join(wd, "b.gb")
            cmd = ["goto-instrument"] + ([] if g.oldstyle else ["--dfcc", g.entry])
            if g.enforce:
                cmd += ["--enforce-contract-rec" if g.enforce_rec else "--enforce-contract", g.enforce]
            for r in g.replace:
                cmd += ["--replace-call-with-contract", r]
            if g.loops is not None:
                lf = gen_loop_contracts(g, cur, wd, ["goto-instrument", "--dfcc", g.entry] + cmd[1 if g.oldstyle else 3:])
                cmd += ["--loop-contracts-file", lf, "--apply-loop-contracts"]
            cmd += g.extra_instrument
            cmd += [cur, b]
            rc, out, err, dt = run(cmd, 600, mem_gb=g.mem_gb, cwd=wd, log=os.path.join(wd, "instrument.log"))
            if rc != 0:
                raise Infra("goto-instrument --dfcc failed: " + (err or out)[-3000:])
            cur = b
        cmd = ["cbmc", cur] + (["--function", g.entry] if g.oldstyle else []) + ["--json-ui", "--drop-unused-functions", "--unwind", str(g.unwind)] + \
              (["--no-unwinding-assertions"] if g.no_unwinding_assertions else ["--unwinding-assertions"]) + g.checks
        uws = list(g.unwindset)
        if g.unwind_fn:
            rc3, out3, err3, _ = run(["goto-instrument", "--show-loops", cur], 120)
            for m in re.finditer(r"^Loop (\S+?)\.(\d+):", out3, re.M):
                base = m.group(1).replace("_wrapped_for_contract_checking", "")
                if base in g.unwind_fn:
                    uws.append(f"{m.group(1)}.{m.group(2)}:{g.unwind_fn[base]}")
        if uws:
            cmd += ["--unwindset", ",".join(uws)]
        if g.object_bits:
            cmd += ["--object-bits", str(g.object_bits)]
        if g.malloc_may_fail:
            cmd += ["--malloc-may-fail", "--malloc-fail-null"]
        if g.solver == "cadical":
            cmd += ["--sat-solver", "cadical"]
        elif g.solver == "cvc5":
            cmd += ["--cvc5"]
        elif g.solver == "z3":
            cmd += ["--z3"]
        if keep_trace:
            cmd += ["--trace"]
        cmd += g.cbmc_args
        res.cmd = " ".join(cmd).replace(wd + "/", "")
        res.backend = {"sat": "cbmc/minisat2", "cadical": "cbmc/cadical", "cvc5": "cbmc/SMT2 cvc5", "z3": "cbmc/SMT2 z3"}[g.solver]
        rc, out, err, dt = run(cmd, g.timeout, mem_gb=g.mem_gb, cwd=wd, log=os.path.join(wd, "cbmc.log"))
        res.solver_seconds = dt
        if rc == -999:
            raise Infra(f"cbmc timeout after {g.timeout}s")
        try:
            js = json.loads(out)
        except Exception:
            raise Infra("cbmc output not JSON (rc=%s): %s" % (rc, (out[-1500:] + err[-1500:])))
        results = None
        msgs = []
        for item in js:
            if "result" in item:
                results = item["result"]
            if "messageText" in item:
                msgs.append(item["messageText"])
        alltxt = "\n".join(msgs)
        if re.search(r"ignoring forall|ignoring exists", alltxt):
            raise Infra("quantifier ignored by back end")
        if results is None:
            raise Infra("cbmc produced no result (rc=%s): %s" % (rc, alltxt[-2500:]))
        if any(r.get("status") == "ERROR" for r in results) or any(item.get("cProverStatus") == "error" for item in js):
            # e.g. "Solver ran out of memory": nothing was decided for the affected obligations
            raise Infra("cbmc reported an error (out of memory / solver error): " + alltxt[-600:])
        n = 0
        ok = 0
        canaries = 0
        filtered = 0
        vacuous = []
        for r in results:
            desc = r.get("description", "")
            st = r.get("status")
            loc = r.get("sourceLocation", {})
            m = TAG_RE.match(desc)
            if g.tags is not None and m and not (set(m.group(1).split("/")) & set(g.tags)):
                filtered += 1
                continue   # obligation belongs to another property
            if desc.startswith("VP-CANARY"):
                # reachability guard: this assertion(false) must FAIL, i.e. the harness end is reachable under
                # the preconditions / rely (a contradictory requires or assume would make it "succeed")
                canaries += 1
                if st == "SUCCESS":
                    vacuous.append(desc)
                continue
            entry = {"name": r.get("property"), "description": desc,
                     "file": loc.get("file", ""), "line": loc.get("line", ""), "function": loc.get("function", "")}
            n += 1
            if INV_STEP_RE.search(desc) or desc.startswith("Check invariant before entry"):
                res.loop_obligations += 1
            if st == "SUCCESS":
                ok += 1
                if len(res.samples) < 200:
                    res.samples.append(entry)
            else:
                entry["status"] = st
                if st == "UNKNOWN":
                    # cbmc could neither refute nor prove it (typically: beyond a failed unwinding assertion): undecided, never a violation
                    entry["description"] = "UNKNOWN (undecided by cbmc): " + desc
                    res.aux_failed.append(entry)
                    continue
                if keep_trace and "trace" in r:
                    entry["trace"] = r["trace"]
                anon_loop = (desc == "assertion" and entry["function"].endswith("_wrapped_for_contract_checking") and not entry["file"])
                if anon_loop:
                    # loop-contract obligation (base / step / assigns inclusion) of a loop whose head carries no source location (for(;;))
                    entry["description"] = desc = ("Check loop contract (invariant base/step or assigns inclusion) for a loop without source location in "
                                                   + entry["function"].replace("_wrapped_for_contract_checking", ""))
                if (anon_loop or is_aux(desc)) and not (g.invariant_is_property and INV_STEP_RE.search(desc)):
                    res.aux_failed.append(entry)
                else:
                    res.failed.append(entry)
        res.obligations = n
        res.discharged = ok
        # Loop-invariant conjuncts that CARRY a property are written "(vp_tag_<Cxx>_<name> != 0 || ...)" with the
        # tag constant 0; cbmc reports each top-level conjunct of an invariant as its own obligation, and
        # --show-properties gives its expression.  A failed step obligation whose expression mentions a tag is a
        # failure of that property's obligation, not an auxiliary one.
        if res.aux_failed and g.loops:
            rc2, out2, err2, _ = run(["cbmc", cur, "--drop-unused-functions", "--show-properties", "--json-ui"], 300, mem_gb=g.mem_gb, cwd=wd)
            exprs = {}
            try:
                for item in json.loads(out2):
                    for pr in item.get("properties", []):
                        exprs[pr["name"]] = pr.get("expression", "")
            except Exception:
                pass
            keep = []
            for e in res.aux_failed:
                ex = exprs.get(e["name"], "")
                mt = re.search(r"vp_tag_(C\d\d)_(\w+)", ex)
                is_base = ex.startswith("__init_invariant") or e["description"].startswith("Check invariant before entry")
                if mt and not is_base:
                    tagp = mt.group(1)
                    if g.tags is not None and tagp not in g.tags:
                        continue
                    e["description"] = f"{tagp}: loop invariant clause '{mt.group(2)}' is preserved by every iteration [{ex[:200]}]"
                    res.failed.append(e)
                else:
                    if ex and not e.get("file"):
                        e["description"] += " [" + ex[:160] + "]"
                    keep.append(e)
            res.aux_failed = keep
        if g.loops:
            want = sum(1 for fn in g.loops.values() for lc in fn if lc is not None)
            steps = sum(1 for r in results if INV_STEP_RE.search(r.get("description", "")) or
                        (r.get("description") == "assertion" and r.get("sourceLocation", {}).get("function", "").endswith("_wrapped_for_contract_checking")))
            if steps < want:
                raise Infra(f"only {steps} loop_invariant_step obligations for {want} loop contracts (contract silently dropped)")
        res.canaries = canaries
        if vacuous:
            raise Infra("vacuity guard: harness end unreachable (contradictory precondition/assumption): " + "; ".join(vacuous))
        if g.need_canary and canaries == 0:
            raise Infra("vacuity guard: no reachability canary in this harness")
        if res.failed:
            res.status = "violation"
        elif res.aux_failed:
            res.status = "undecided"
            res.detail = "auxiliary obligations failed: " + "; ".join(
                f"{e['description']} @{os.path.basename(e['file'])}:{e['line']}" for e in res.aux_failed[:5])
        elif n < g.min_obligations and filtered == 0:
            raise Infra(f"vacuity guard: only {n} obligations, expected at least {g.min_obligations}")
        else:
            res.status = "held"
    except Infra as e:
        res.status = "infra"
        res.detail = str(e)
    res.seconds = time.time() - t0
    return res


def run_group(g: Group, prop: str, keep_trace=True) -> Result:
    """Main run; when the loop-contract proof itself is broken (auxiliary obligations fail, or the loop structure no longer
    matches the contract file) a BOUNDED search without loop contracts (every loop of the functions under loop contract
    unwound K_FALLBACK times, no unwinding assertions) looks for a failing property obligation from the function's entry.
    A hit is a violation with a from-entry counterexample; no hit leaves the group undecided (exit 2)."""
    res = _run_group_once(g, prop, keep_trace)
    broken = (res.status == "undecided") or (res.status == "infra" and ("loop-count mismatch" in res.detail or "loop contract for" in res.detail))
    if not broken or not g.loops or g.kind != "proof":
        return res
    import copy
    fb = copy.copy(g)
    fb.loops = None
    fb.unwind_fn = dict(g.unwind_fn)
    for fn in g.loops:
        fb.unwind_fn[fn] = K_FALLBACK + 1
    fb.no_unwinding_assertions = True
    fb.min_obligations = 1
    fb.timeout = min(g.timeout, 600)
    r2 = _run_group_once(fb, prop, keep_trace, sub=".bounded")
    if r2.status == "violation":
        for e in r2.failed:
            e["description"] += f" [proof broken: {res.detail[:120]}; counterexample found by bounded search from function entry, loops unwound {K_FALLBACK}x]"
        res.status = "violation"
        res.failed = r2.failed
        res.cmd = r2.cmd
        res.workdir = r2.workdir
        res.detail += " | bounded fallback found a property-obligation failure"
    else:
        res.detail += f" | bounded fallback (k={K_FALLBACK}) found no property-obligation failure: {r2.status} {r2.detail[:200]}"
    return res
