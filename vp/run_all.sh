#!/bin/sh
# Runs every claimed quick check on /repo itself (regenerates all evidence files); prints one line per property.
cd "$(dirname "$0")/.."
python3 vp/manifest_gen.py >/dev/null
for p in $(python3 -c "import json;print(' '.join(c['property_id'] for c in json.load(open('MANIFEST.json'))['checks']))"); do
  ./check $p --tier quick | tail -1
done
