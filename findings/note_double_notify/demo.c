/* Deterministic schedule for the double-notify / free-parent race in internal/note.c, on the unmodified library.
   Threads: A and B both call nsync_note_notify (n) (equivalently: two pollers of an expired note); C frees n's parent P
   once P has no children left.  No thread uses P except its owner C, and nobody frees n: the API rules are respected.
   The only interposition is a linker wrap of nsync_mu_lock in this demo, used to PAUSE thread A (a pure scheduling delay)
   between its release of n->note_mu and its blocking acquisition of P->note_mu inside notify (). */
#include <stdio.h>
#include <stdlib.h>
#include <pthread.h>
#include <unistd.h>
#include "nsync_cpp.h"
#include "platform.h"
#include "compiler.h"
#include "cputype.h"
#include "nsync.h"
#include "dll.h"
#include "sem.h"
#include "wait_internal.h"
#include "common.h"
#include "atomic.h"

static nsync_note P, n;
static pthread_t thread_a;
static volatile int a_started, a_paused, release_a, a_done;
static nsync_mu *p_mu;

void __real_nsync_mu_lock (nsync_mu *mu);
void __wrap_nsync_mu_lock (nsync_mu *mu) {
	if (a_started && pthread_equal (pthread_self (), thread_a) && mu == p_mu) {
		a_paused = 1;                        /* A holds no lock here: it released n->note_mu and is about to block on P->note_mu */
		while (!release_a) usleep (1000);
	}
	__real_nsync_mu_lock (mu);
}
static void *run_a (void *v) {
	(void) v;
	a_started = 1;
	nsync_note_notify (n);
	a_done = 1;
	return NULL;
}
static volatile int b_done, c_done;
static void *run_b (void *v) { (void) v; nsync_note_notify (n); b_done = 1; return NULL; }     /* B: a second notifier of the same note */
static void *run_c (void *v) { (void) v; while (!b_done) usleep (1000); nsync_note_free (P); c_done = 1; return NULL; }   /* C: P's owner frees it once n is notified */
int main (void) {
	pthread_t tb, tc;
	int i;
	P = nsync_note_new (NULL, nsync_time_no_deadline);
	n = nsync_note_new (P, nsync_time_no_deadline);
	p_mu = &P->note_mu;
	/* some thread holds P's lock briefly (as nsync_note_new (P, ...) or a poll of P would): A's trylock of it fails */
	__real_nsync_mu_lock (p_mu);
	pthread_create (&thread_a, NULL, run_a, NULL);
	while (!a_paused) usleep (1000);
	nsync_mu_unlock (p_mu);
	pthread_create (&tb, NULL, run_b, NULL);
	pthread_create (&tc, NULL, run_c, NULL);
	/* give B and C half a second: on a tree with the defect both complete while A is paused (P is freed); on a repaired tree B waits for A */
	for (i = 0; i < 500 && !c_done; i++) usleep (1000);
	printf ("while A was paused: second notify %s, free of the parent %s\n", b_done ? "completed" : "waiting for A", c_done ? "completed" : "not yet");
	release_a = 1;                      /* A resumes: it locks the parent it remembered */
	pthread_join (thread_a, NULL);
	pthread_join (tb, NULL);
	pthread_join (tc, NULL);
	printf ("no access to a freed note detected\n");
	nsync_note_free (n);
	return 0;
}
