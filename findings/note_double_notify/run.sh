#!/bin/sh
# Deterministic reproduction of the double-notify / free-parent race in internal/note.c (fixed by /repo commit 3d01c1c).
# usage: run.sh [nsync-root (default /repo)]
# exit 1 + AddressSanitizer heap-use-after-free in notify() on a tree with the defect, exit 0 on a repaired tree.
R=${1:-/repo}
here=$(cd "$(dirname "$0")" && pwd)
d=$(mktemp -d /tmp/noterace.XXXXXX)
INC="-I$R/platform/linux -I$R/platform/gcc -I$R/platform/posix -I$R/platform/x86_64 -I$R/public -I$R/internal"
SRC=$(ls $R/internal/*.c | grep -v sem_wait_no_note.c)
gcc -g -O1 -fsanitize=address -fno-omit-frame-pointer $INC "$here/demo.c" $SRC $R/platform/linux/src/nsync_semaphore_futex.c \
    $R/platform/posix/src/nsync_panic.c $R/platform/posix/src/per_thread_waiter.c $R/platform/posix/src/time_rep.c $R/platform/posix/src/yield.c \
    -o $d/demo -Wl,--wrap=nsync_mu_lock -lpthread || { rm -rf $d; exit 2; }
timeout 60 $d/demo > $d/out.txt 2>&1; rc=$?
grep -v '^  0x\|^Shadow\|^  [A-Z]' $d/out.txt | head -40
rm -rf $d
[ $rc -eq 0 ] && echo "PASS" || echo "FAIL (rc=$rc)"
[ $rc -eq 0 ]
