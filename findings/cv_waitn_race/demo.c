/* Deterministic schedule for the cv-signal / nsync_wait_n race, on the unmodified library.
   The only interposition is a linker wrap of nsync_dll_remove_ in this demo: the signaller is paused
   at its second call (the one in wake_waiters, after it has released the cv spinlock and before it
   clears the waiter's flag) until the waiting thread's nsync_wait_n has returned through its deadline. */
#include <stdio.h>
#include <stdlib.h>
#include <string.h>
#include <pthread.h>
#include <unistd.h>
#include "nsync.h"
#include "dll.h"

static pthread_t signaller;
static volatile int armed, remove_calls, waitn_returned, waitn_result = -2;
static nsync_cv cv;
static nsync_note notes[5];

nsync_dll_list_ __real_nsync_dll_remove_ (nsync_dll_list_ list, nsync_dll_element_ *e);
nsync_dll_list_ __wrap_nsync_dll_remove_ (nsync_dll_list_ list, nsync_dll_element_ *e) {
	if (armed && pthread_equal (pthread_self (), signaller)) {
		int n = __sync_add_and_fetch (&remove_calls, 1);
		if (n == 2) {               /* in wake_waiters: spinlock released, flag not yet cleared */
			while (!waitn_returned) usleep (1000);
			usleep (20000);     /* the waiter's frame / heap block is gone now */
		}
	}
	return __real_nsync_dll_remove_ (list, e);
}

static void *waiter_thread (void *a) {
	int count = *(int *) a, i;
	struct nsync_waitable_s w[6];
	struct nsync_waitable_s *pw[6];
	w[0].v = &cv; w[0].funcs = &nsync_cv_waitable_funcs;
	for (i = 1; i < count; i++) { w[i].v = notes[i - 1]; w[i].funcs = &nsync_note_waitable_funcs; }
	for (i = 0; i < count; i++) pw[i] = &w[i];
	waitn_result = nsync_wait_n (NULL, NULL, NULL, nsync_time_add (nsync_time_now (), nsync_time_ms (300)), count, pw);
	waitn_returned = 1;
	return NULL;
}
static void *signal_thread (void *a) {
	(void) a;
	armed = 1;
	nsync_cv_signal (&cv);
	armed = 0;
	return NULL;
}
int main (int argc, char **argv) {
	int count = argc > 1 ? atoi (argv[1]) : 6, i;
	pthread_t wt;
	nsync_cv_init (&cv);
	for (i = 0; i < 5; i++) notes[i] = nsync_note_new (NULL, nsync_time_no_deadline);
	pthread_create (&wt, NULL, waiter_thread, &count);
	usleep (100000);                 /* the waiter is registered on the cv and asleep */
	pthread_create (&signaller, NULL, signal_thread, NULL);
	pthread_join (wt, NULL);
	pthread_join (signaller, NULL);
	printf ("nsync_wait_n returned %d (count=%d): %s\n", waitn_result, count,
		waitn_result == count ? "TIMEOUT although the signal had already taken it off the cv queue (wake-up swallowed)" : "object index");
	return waitn_result == count ? 1 : 0;
}
