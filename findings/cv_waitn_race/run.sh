#!/bin/sh
# Deterministic reproduction of the cv-signal / nsync_wait_n race (fixed by /repo commit 2becd4b).
# usage: run.sh [nsync-root (default /repo)] [count (default 6: heap bookkeeping; 1..4: on-stack)]
# exit 1 + AddressSanitizer report (or a crash) on a tree with the defect, exit 0 on a repaired tree.
R=${1:-/repo}; C=${2:-6}
here=$(cd "$(dirname "$0")" && pwd)
d=$(mktemp -d /tmp/cvrace.XXXXXX)
INC="-I$R/platform/linux -I$R/platform/gcc -I$R/platform/posix -I$R/platform/x86_64 -I$R/public -I$R/internal"
SRC=$(ls $R/internal/*.c | grep -v sem_wait_no_note.c)
gcc -g -O1 -fsanitize=address -fno-omit-frame-pointer $INC "$here/demo.c" $SRC $R/platform/linux/src/nsync_semaphore_futex.c \
    $R/platform/posix/src/nsync_panic.c $R/platform/posix/src/per_thread_waiter.c $R/platform/posix/src/time_rep.c $R/platform/posix/src/yield.c \
    -o $d/demo -Wl,--wrap=nsync_dll_remove_ -lpthread || { rm -rf $d; exit 2; }
ASAN_OPTIONS=detect_stack_use_after_return=1 timeout 60 $d/demo $C 2>&1 | grep -v '^  0x\|^Shadow\|^  [A-Z]' | head -40
rc=${PIPESTATUS:-0}
$d/demo $C >/dev/null 2>&1; rc=$?
rm -rf $d
[ $rc -eq 0 ] && echo "PASS: nsync_wait_n reported the cv; no access to reclaimed bookkeeping" || echo "FAIL (rc=$rc)"
[ $rc -eq 0 ]
