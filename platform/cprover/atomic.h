/* Verification port of nsync's atomic.h (selected by include path, which is
   nsync's own porting seam).  Every ATM_* operation becomes one call into the
   rely/guarantee layer in /verif/rg, carrying the memory order the source
   asked for.  Nothing else of the platform layer is replaced.

   The same header is used by goto-cc (proof) and by gcc (native replay). */
#ifndef VP_PLATFORM_CPROVER_ATOMIC_H_
#define VP_PLATFORM_CPROVER_ATOMIC_H_

#include "compiler.h"
#include "nsync_atomic.h"

NSYNC_CPP_START_

#define VP_RLX 0
#define VP_ACQ 1
#define VP_REL 2
#define VP_ACQREL 3

int vp_cas (nsync_atomic_uint32_ *p, uint32_t o, uint32_t n, int order);
uint32_t vp_load (nsync_atomic_uint32_ *p, int order);
void vp_store (nsync_atomic_uint32_ *p, uint32_t v, int order);

#define ATM_CAS(p,o,n)           vp_cas ((p), (o), (n), VP_RLX)
#define ATM_CAS_ACQ(p,o,n)       vp_cas ((p), (o), (n), VP_ACQ)
#define ATM_CAS_REL(p,o,n)       vp_cas ((p), (o), (n), VP_REL)
#define ATM_CAS_RELACQ(p,o,n)    vp_cas ((p), (o), (n), VP_ACQREL)

#define ATM_LOAD(p)         vp_load ((nsync_atomic_uint32_ *) (p), VP_RLX)
#define ATM_LOAD_ACQ(p)     vp_load ((nsync_atomic_uint32_ *) (p), VP_ACQ)

#define ATM_STORE(p,v)      vp_store ((p), (v), VP_RLX)
#define ATM_STORE_REL(p,v)  vp_store ((p), (v), VP_REL)

NSYNC_CPP_END_

#endif /*VP_PLATFORM_CPROVER_ATOMIC_H_*/
