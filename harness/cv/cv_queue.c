/* C04 queue-content groups on the REAL cv.c + REAL dll.c (bounded: at most VP_K
   waiters on the cv queue, of arbitrary kinds).  The mutex word is under the
   rely/guarantee hooks (arbitrary interference); the semaphore post is a stub
   that records which record was posted. */
#include "c_mu.h"
#include "cv.c"

#ifndef VP_K
#define VP_K 3
#endif

static lock_type Wt, Rt;
static nsync_mu the_mu;
static nsync_cv the_cv;
static waiter W[VP_K];
static int n;                       /* queue length */
static int posted[VP_K];            /* semaphore of record i was posted */
static int cleared_before_post[VP_K];

/* the record of the thread under proof when it registers on the cv through nsync_cv_waitable_funcs (as nsync_wait_n does) */
static struct nsync_waiter_s mine;
static nsync_semaphore mine_sem;
static int mine_posted;

/* the semaphore post: records the record it belongs to (overrides the generic stub: VP_REAL_SEM is defined for this group) */
void nsync_mu_semaphore_init (nsync_semaphore *s) { (void) s; }
void nsync_mu_semaphore_p (nsync_semaphore *s) { (void) s; vp_g.p_calls++; }
int nsync_mu_semaphore_p_with_deadline (nsync_semaphore *s, nsync_time d) { (void) s; (void) d; vp_g.p_calls++; return vp_nondet_bool () ? ETIMEDOUT : 0; }
void nsync_mu_semaphore_v (nsync_semaphore *s) {
	int i, found = 0;
	for (i = 0; i < VP_K; i++) {
		if (s == &W[i].sem) {
			found = 1;
			__CPROVER_assert (W[i].nw.waiting == 0, "C04: a waiter's semaphore is posted only after its waiting flag was cleared");
			__CPROVER_assert (!posted[i], "C04: each waiter is posted at most once per wake-up");
			/* A record registered through nsync_wait_n (no NSYNC_WAITER_FLAG_MUCV) has no remove_count: its owner's dequeue decides
			   'still queued' from the waiting flag, under the cv spinlock, and frees the record when nsync_wait_n returns.  So the waker
			   must clear the flag and post - its last accesses to the record - inside the spinlock section that unlinked it. */
			__CPROVER_assert ((W[i].nw.flags & NSYNC_WAITER_FLAG_MUCV) != 0 || vp_cvg.spin,
					  "C04/C13: the waker is done with an nsync_wait_n record (flag cleared, semaphore posted) before it releases the cv spinlock "
					  "that the record's dequeue takes: otherwise a wait ending through its deadline or another object sees itself still queued "
					  "(the wake-up is swallowed) and the waker then writes into the returned call's bookkeeping");
			posted[i] = 1;
		}
	}
	if (s == &mine_sem) {
		found = 1;
		__CPROVER_assert (mine.waiting == 0, "C04: a waiter's semaphore is posted only after its waiting flag was cleared");
		__CPROVER_assert (!mine_posted, "C04: each waiter is posted at most once per wake-up");
		__CPROVER_assert (vp_cvg.spin, "C04/C13: the waker is done with an nsync_wait_n record (flag cleared, semaphore posted) before it releases the cv spinlock "
				  "that the record's dequeue takes");
		mine_posted = 1;
	}
	__CPROVER_assert (found, "C04: only semaphores of waiters taken from the queue are posted");
	vp_g.v_calls++;
}

static int is_native (int i) { return (W[i].nw.flags & NSYNC_WAITER_FLAG_MUCV) != 0; }
static int is_reader (int i) { return is_native (i) && W[i].l_type == nsync_reader_type_; }
static int on_list (nsync_dll_list_ list, nsync_dll_element_ *e) {
	nsync_dll_element_ *p; int k = 0, hit = 0;
	for (p = nsync_dll_first_ (list); p != NULL && k <= 2 * VP_K; p = nsync_dll_next_ (list, p)) { if (p == e) hit = 1; k++; }
	return hit;
}
static int kind_of[VP_K];          /* 0 non-native (nsync_wait_n record), 1 native writer, 2 native reader */
static uint32_t mu_word_of;        /* representative value of the mutex word for this scenario */
static int with_mu;                /* native waiters are associated with the_mu (else with no nsync_mu) */
static void build (int hold) {
	int i;
	Wt.zero_to_acquire = MU_WZERO_TO_ACQUIRE; Wt.add_to_acquire = MU_WADD_TO_ACQUIRE; Wt.held_if_non_zero = MU_WHELD_IF_NON_ZERO;
	Wt.set_when_waiting = MU_WSET_WHEN_WAITING; Wt.clear_on_acquire = MU_WCLEAR_ON_ACQUIRE; Wt.clear_on_uncontended_release = MU_WCLEAR_ON_UNCONTENDED_RELEASE;
	Rt.zero_to_acquire = MU_RZERO_TO_ACQUIRE; Rt.add_to_acquire = MU_RADD_TO_ACQUIRE; Rt.held_if_non_zero = MU_RHELD_IF_NON_ZERO;
	Rt.set_when_waiting = MU_RSET_WHEN_WAITING; Rt.clear_on_acquire = MU_RCLEAR_ON_ACQUIRE; Rt.clear_on_uncontended_release = MU_RCLEAR_ON_UNCONTENDED_RELEASE;
	nsync_writer_type_ = &Wt; nsync_reader_type_ = &Rt;
	vp_reg_clear ();
	vp_reg.mu_word = &the_mu.word;
	vp_reg.cv_word = &the_cv.word;
	vp_mu_init_ghost (hold, 0, 0);
	the_mu.word = mu_word_of;
	__CPROVER_assume (vp_mu_inv_me (the_mu.word));
	the_mu.waiters = NULL;
#ifdef VP_N
	n = VP_N;      /* concrete queue length: one group per length keeps every list pointer concrete */
#else
	n = (int) (vp_nondet_u32 () % (VP_K + 1));
#endif
	the_cv.waiters = NULL;
	for (i = 0; i < VP_K; i++) {
		W[i].tag = WAITER_TAG; W[i].nw.tag = NSYNC_WAITER_TAG;
		W[i].nw.sem = &W[i].sem;
		nsync_dll_init_ (&W[i].nw.q, &W[i].nw);
		nsync_dll_init_ (&W[i].same_condition, &W[i]);
		W[i].nw.flags = kind_of[i] != 0 ? NSYNC_WAITER_FLAG_MUCV : 0;
		W[i].l_type = kind_of[i] == 1 ? nsync_writer_type_ : kind_of[i] == 2 ? nsync_reader_type_ : NULL;
		W[i].cv_mu = (kind_of[i] != 0 && with_mu) ? &the_mu : NULL;
		W[i].remove_count = vp_nondet_u32 ();
		W[i].cond.f = NULL;
		W[i].nw.waiting = 0;
		posted[i] = 0;
		vp_wk.rec[i] = &W[i].nw;
		if (i < n) {
			W[i].nw.waiting = 1;
			the_cv.waiters = nsync_dll_make_last_in_list_ (the_cv.waiters, &W[i].nw.q);
		}
	}
	the_cv.word = n > 0 ? CV_NON_EMPTY : (vp_nondet_u32 () & CV_NON_EMPTY);
}
/* every record that was taken from the cv queue is woken (flag cleared, then posted) or transferred to the mutex's queue
   (still waiting, on mu->waiters, cv_mu cleared); records not taken are untouched and still on the cv queue */
static void check_taken (int i, int must_be_taken) {
	int on_cv = on_list (the_cv.waiters, &W[i].nw.q);
	int on_mu = on_list (the_mu.waiters, &W[i].nw.q);
	int woken = (W[i].nw.waiting == 0 && posted[i]);
	int transferred = (W[i].nw.waiting == 1 && on_mu && W[i].cv_mu == NULL && !posted[i]);
	__CPROVER_assert (on_cv ? (W[i].nw.waiting == 1 && !posted[i] && !on_mu) : (woken || transferred),
			  "C04: every waiter is either still queued on the cv, or woken (flag cleared, semaphore posted), or transferred to the mutex queue: none is dropped");
	__CPROVER_assert (!must_be_taken || !on_cv, "C04: the wake-up covers every waiter it must (broadcast: all; signal: the first, and all readers if the first is a reader)");
	__CPROVER_assert (!transferred || (the_mu.word & MU_WAITING) != 0 || vp_g.hold == VP_NONE,
			  "C02/C04: a waiter transferred to the mutex queue leaves MU_WAITING set");
}

/* The kinds of the queued waiters are enumerated by constant-bounded loops (every list pointer stays concrete on every path);
   the mutex word, the caller's hold on the mutex and remove_count values are symbolic. */
#ifdef VP_WORDS_SMALL
/* one representative per transfer decision of wake_waiters: free; write-held; read-held; held with the queue spinlock taken; read-held with a writer waiting */
#define VP_WORDS 0, MU_WLOCK, MU_RLOCK, MU_WLOCK | MU_SPINLOCK, MU_RLOCK | MU_WAITING | MU_WRITER_WAITING
#else
#define VP_WORDS 0, MU_WLOCK, MU_RLOCK, 2 * MU_RLOCK, MU_WLOCK | MU_SPINLOCK, MU_WLOCK | MU_WAITING | MU_WRITER_WAITING, \
	MU_RLOCK | MU_WAITING | MU_ALL_FALSE, MU_WRITER_WAITING | MU_WAITING, MU_LONG_WAIT | MU_WAITING, MU_DESIG_WAKER | MU_WAITING
#endif
#define VP_FOR_ALL_KINDS(body) do { int k0_, k1_, k2_, k3_, m_; \
	static const uint32_t words_[] = { VP_WORDS }; \
	int w_; \
	for (w_ = 0; w_ < (int) (sizeof (words_) / sizeof (words_[0])); w_++) \
	for (m_ = 0; m_ < 2; m_++) for (k0_ = 0; k0_ < (VP_N > 0 ? 3 : 1); k0_++) for (k1_ = 0; k1_ < (VP_N > 1 ? 3 : 1); k1_++) \
	for (k2_ = 0; k2_ < (VP_N > 2 ? 3 : 1); k2_++) for (k3_ = 0; k3_ < (VP_N > 3 ? 3 : 1); k3_++) { \
		mu_word_of = words_[w_]; with_mu = m_; kind_of[0] = k0_; if (VP_K > 1) kind_of[1 % VP_K] = k1_; if (VP_K > 2) kind_of[2 % VP_K] = k2_; if (VP_K > 3) kind_of[3 % VP_K] = k3_; \
		body; } } while (0)

static void one_broadcast (void) {
	int i;
	build ((mu_word_of & MU_WLOCK) != 0 ? (vp_nondet_bool () ? VP_WRITER : VP_NONE) : (mu_word_of & MU_RLOCK_FIELD) != 0 ? (vp_nondet_bool () ? VP_READER : VP_NONE) : VP_NONE);
	nsync_cv_broadcast (&the_cv);
	for (i = 0; i < VP_K; i++) if (i < n) check_taken (i, 1);
	__CPROVER_assert (the_cv.waiters == NULL, "C04: broadcast leaves the cv queue empty");
	__CPROVER_assert (!vp_cvg.spin && !vp_g.spin, "C04: no spinlock is held on return");
}
void h_cv_broadcast (void) { VP_FOR_ALL_KINDS (one_broadcast ()); VP_CANARY (); }
static void one_signal (void) {
	int i;
	build ((mu_word_of & MU_WLOCK) != 0 ? (vp_nondet_bool () ? VP_WRITER : VP_NONE) : (mu_word_of & MU_RLOCK_FIELD) != 0 ? (vp_nondet_bool () ? VP_READER : VP_NONE) : VP_NONE);
	nsync_cv_signal (&the_cv);
	for (i = 0; i < VP_K; i++) if (i < n) check_taken (i, i == 0 || (is_reader (0) && is_reader (i)));
	__CPROVER_assert (!vp_cvg.spin && !vp_g.spin, "C04: no spinlock is held on return");
	__CPROVER_assert (the_cv.waiters == NULL || (the_cv.word & CV_NON_EMPTY) != 0, "C04: CV_NON_EMPTY stays set while waiters remain (later wake-ups must not take the empty fast path)");
}
void h_cv_signal (void) { VP_FOR_ALL_KINDS (one_signal ()); VP_CANARY (); }

/* The waitable interface of a cv (what nsync_wait_n calls), on the real queue: register behind n other waiters, let another thread
   run a complete nsync_cv_signal / nsync_cv_broadcast (or nothing), poll, dequeue. */
static int act_of;
static void one_waitable (void) {
	int r, taken, ready;
	build ((mu_word_of & MU_WLOCK) != 0 ? (vp_nondet_bool () ? VP_WRITER : VP_NONE) : (mu_word_of & MU_RLOCK_FIELD) != 0 ? (vp_nondet_bool () ? VP_READER : VP_NONE) : VP_NONE);
	mine.tag = NSYNC_WAITER_TAG; mine.sem = &mine_sem; mine.flags = 0; mine.waiting = 0;
	nsync_dll_init_ (&mine.q, &mine);
	/* (not registered as a foreign record: this thread clears its own flag in cv_dequeue, with a plain store) */
	mine_posted = 0;
	r = cv_enqueue (&the_cv, &mine);
	__CPROVER_assert (r == 1 && mine.waiting == 1 && nsync_dll_last_ (the_cv.waiters) == &mine.q && (the_cv.word & CV_NON_EMPTY) != 0 && !vp_cvg.spin,
			  "C11: registration on a cv puts the record at the tail of its queue and marks the cv non-empty");
	__CPROVER_assert (nsync_time_cmp (cv_ready_time (&the_cv, &mine), nsync_time_no_deadline) == 0, "C11: a registered record that no waker has taken is not ready");
	if (act_of == 1) nsync_cv_signal (&the_cv);
	else if (act_of == 2) nsync_cv_broadcast (&the_cv);
	taken = !on_list (the_cv.waiters, &mine.q);
	__CPROVER_assert (taken == (mine.waiting == 0) && taken == mine_posted,
			  "C04: a record a waker took from the queue has its flag cleared and its semaphore posted; a record not taken is untouched");
	ready = nsync_time_cmp (cv_ready_time (&the_cv, &mine), nsync_time_zero) == 0;
	__CPROVER_assert (ready == taken, "C11: the cv reports ready for this call exactly when a waker has taken its record");
	r = cv_dequeue (&the_cv, &mine);
	__CPROVER_assert (r == !taken, "C04/C11: dequeue reports 'still queued' exactly when no waker has taken the record: a consumed wake-up is never reported as a timeout");
	__CPROVER_assert (!on_list (the_cv.waiters, &mine.q) && mine.waiting == 0 && mine.q.next == &mine.q && mine.q.prev == &mine.q,
			  "C11: on return the record is registered nowhere");
	__CPROVER_assert ((the_cv.waiters == NULL || (the_cv.word & CV_NON_EMPTY) != 0) && !vp_cvg.spin,
			  "C04: CV_NON_EMPTY stays set while waiters remain, and the spinlock is released");
	__CPROVER_assert (mine_posted == taken, "C04: dequeue posts nobody");
}
void h_cv_waitable (void) { for (act_of = 0; act_of < 3; act_of++) { VP_FOR_ALL_KINDS (one_waitable ()); } VP_CANARY (); }
