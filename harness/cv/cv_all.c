/* Wrapper TU for the unmodified internal/cv.c: word-level proofs (mutex word and
   cv word under rely/guarantee, waiter queues abstract). */
#include "c_mu.h"
#include "cv.c"

#define VP_WK_FIELDS vp_wk.cleared, vp_wk.posted, vp_wk.pending, vp_wk.last_cleared

/* wake_waiters: every element of the (non-empty) wake list is either transferred to the mutex queue - under the mutex's queue
   spinlock, taken and released by legal transitions of the mutex word - or has its waiting flag cleared (release) and then its
   semaphore posted.  The caller's hold on the mutex is unchanged. */
static void wake_waiters (nsync_dll_list_ to_wake_list, int all_readers)
__CPROVER_requires (VP_TYPES_OK () && to_wake_list == &vp_fw.nw.q && !vp_g.spin && !vp_g.dead && !vp_g.observer && !vp_wk.pending)
__CPROVER_requires (vp_fw.cv_mu == NULL || &vp_fw.cv_mu->word == vp_reg.mu_word)
__CPROVER_ensures (!vp_g.spin && vp_g.hold == __CPROVER_old (vp_g.hold) && !vp_wk.pending && vp_wk.cleared == vp_wk.posted)
__CPROVER_ensures (vp_g.waited == __CPROVER_old (vp_g.waited) && vp_g.queued == __CPROVER_old (vp_g.queued) && (!vp_g.dead || vp_g.release_ctx))
__CPROVER_assigns (VP_G_STEP, VP_FW_DATA, VP_WK_FIELDS, vp_g.v_calls, *vp_reg.mu_word, ((nsync_mu *) vp_reg.mu_word)->waiters);

/* a client-supplied (non-nsync_mu) lock for the generic wait */
struct vp_gen_lock_ghost { int held; unsigned locks, unlocks; };
static struct vp_gen_lock_ghost vp_gen;
static void vp_gen_lock (void *m) { (void) m; __CPROVER_assert (!vp_gen.held, "C05: the generic lock is not re-acquired while held"); vp_gen.held = 1; vp_gen.locks++; }
static void vp_gen_unlock (void *m) {
	(void) m;
	__CPROVER_assert (vp_gen.held, "C05: the generic lock is released only while held");
	__CPROVER_assert (vp_cvg.enq_done, "C04: the lock is released only after the waiter is on the cv's queue (release-and-wait is atomic w.r.t. wakers that hold the lock)");
	vp_gen.held = 0; vp_gen.unlocks++;
}

#define VP_CV_IS(pcv) ((pcv) != NULL && __CPROVER_rw_ok ((pcv), sizeof (*(pcv))) && &(pcv)->word == vp_reg.cv_word)
#define VP_CVG_FIELDS vp_cvg.spin, vp_cvg.enq_done, vp_cvg.unlinked_by_other, vp_cvg.self_dequeued, vp_cvg.sections
/* C01/C05: returns holding the mutex in the mode held on entry (or the generic lock, re-acquired exactly once);
   C05: a non-zero result is the outcome of its own timed/cancellable sleep, reported only after the thread dequeued itself under
        the cv spinlock;
   C04: the mutex is released only after the waiter is queued (requires of the unlock contracts / vp_gen_unlock), and a waiter that
        was unlinked by a waker - i.e. consumed a wake-up - reports 0, never a timeout or cancellation. */
int nsync_cv_wait_with_deadline_generic (nsync_cv *pcv, void *pmu, void (*lock) (void *), void (*unlock) (void *),
					 nsync_time abs_deadline, nsync_note cancel_note)
__CPROVER_requires (VP_TYPES_OK () && VP_CV_IS (pcv) && !vp_cvg.spin && vp_cvg.in_wait && !vp_cvg.enq_done && !vp_cvg.unlinked_by_other && !vp_cvg.self_dequeued)
__CPROVER_requires (vp_cvg.my_remove_count == &vp_my_w.remove_count)
__CPROVER_requires ((lock == &void_mu_lock && unlock == &void_mu_unlock && VP_MU_IS ((nsync_mu *) pmu) && (vp_g.hold == VP_READER || vp_g.hold == VP_WRITER)) ||
		    (lock == &vp_gen_lock && unlock == &vp_gen_unlock && vp_gen.held == 1 && vp_gen.locks == 0 && vp_gen.unlocks == 0 && vp_g.hold == VP_NONE))
__CPROVER_requires (!vp_g.spin && !vp_g.dead && !vp_g.waited && !vp_g.queued && !vp_g.observer && !vp_g.release_ctx)
__CPROVER_ensures (vp_g.hold == __CPROVER_old (vp_g.hold) && !vp_g.spin && !vp_g.dead && !vp_cvg.spin)
__CPROVER_ensures (lock != &vp_gen_lock || (vp_gen.held == 1 && vp_gen.locks == 1 && vp_gen.unlocks == 1))
__CPROVER_ensures (__CPROVER_return_value == 0 || __CPROVER_return_value == ETIMEDOUT || __CPROVER_return_value == ECANCELED)
__CPROVER_ensures (__CPROVER_return_value == 0 || (__CPROVER_return_value == vp_g.last_sem_outcome && vp_cvg.self_dequeued))
__CPROVER_ensures (!vp_cvg.unlinked_by_other || __CPROVER_return_value == 0)
__CPROVER_assigns (VP_G_ALL, VP_FW_DATA, VP_CVG_FIELDS, VP_WK_FIELDS, vp_my_w, vp_reg.my_waiting, vp_gen, pcv->word, pcv->waiters,
		   *vp_reg.mu_word, ((nsync_mu *) vp_reg.mu_word)->waiters);

static lock_type Wt, Rt;
static nsync_mu the_mu;
static nsync_cv the_cv;
static void any_types (void) {
	Wt.zero_to_acquire = vp_nondet_u32 (); Wt.add_to_acquire = vp_nondet_u32 (); Wt.held_if_non_zero = vp_nondet_u32 ();
	Wt.set_when_waiting = vp_nondet_u32 (); Wt.clear_on_acquire = vp_nondet_u32 (); Wt.clear_on_uncontended_release = vp_nondet_u32 ();
	Rt.zero_to_acquire = vp_nondet_u32 (); Rt.add_to_acquire = vp_nondet_u32 (); Rt.held_if_non_zero = vp_nondet_u32 ();
	Rt.set_when_waiting = vp_nondet_u32 (); Rt.clear_on_acquire = vp_nondet_u32 (); Rt.clear_on_uncontended_release = vp_nondet_u32 ();
	nsync_writer_type_ = &Wt;
	nsync_reader_type_ = &Rt;
}
static void setup (int hold) {
	any_types ();
	vp_reg_clear ();
	vp_fw_init ();
	vp_reg.mu_word = &the_mu.word;
	vp_mu_init_ghost (hold, 0, 0);
	the_mu.word = vp_mu_any_word ();
	the_mu.waiters = vp_nondet_bool () ? NULL : &vp_fw.nw.q;
}
void h_cv_wait (void) {
	int generic = vp_nondet_bool ();
	int hold = generic ? VP_NONE : (vp_nondet_bool () ? VP_WRITER : VP_READER);
	nsync_time d; d.tv_sec = vp_nondet_i64 (); d.tv_nsec = vp_nondet_i64 ();
	setup (hold);
	vp_reg.cv_word = &the_cv.word;
	the_cv.word = vp_nondet_u32 () & (CV_SPINLOCK | CV_NON_EMPTY);
	the_cv.waiters = vp_nondet_bool () ? NULL : &vp_fw.nw.q;
	vp_cvg.in_wait = 1;
	vp_cvg.my_remove_count = &vp_my_w.remove_count;
	vp_gen.held = generic; vp_gen.locks = 0; vp_gen.unlocks = 0;
	if (generic) (void) nsync_cv_wait_with_deadline_generic (&the_cv, &vp_gen, &vp_gen_lock, &vp_gen_unlock, d, NULL);
	else (void) nsync_cv_wait_with_deadline_generic (&the_cv, &the_mu, &void_mu_lock, &void_mu_unlock, d, NULL);
	VP_CANARY ();
}
void h_wake_waiters (void) {
	setup ((int) (vp_nondet_u32 () % 3));
	vp_fw.nw.flags = vp_nondet_u32 ();
	vp_fw.cv_mu = vp_nondet_bool () ? NULL : &the_mu;
	vp_fw.l_type = vp_nondet_bool () ? nsync_writer_type_ : nsync_reader_type_;
	wake_waiters (&vp_fw.nw.q, vp_nondet_bool ());
	VP_CANARY ();
}
