/* Harnesses for the mutex-word proofs.  Each builds the objects, registers the
   word with the rely/guarantee layer, picks an ARBITRARY ghost and word allowed
   by the function's precondition, and calls ONE function. */
#include "c_mu.h"

static lock_type Wt, Rt;
static nsync_mu the_mu;
static waiter the_w;

static void any_types (void) {
	Wt.zero_to_acquire = vp_nondet_u32 (); Wt.add_to_acquire = vp_nondet_u32 (); Wt.held_if_non_zero = vp_nondet_u32 ();
	Wt.set_when_waiting = vp_nondet_u32 (); Wt.clear_on_acquire = vp_nondet_u32 (); Wt.clear_on_uncontended_release = vp_nondet_u32 ();
	Rt.zero_to_acquire = vp_nondet_u32 (); Rt.add_to_acquire = vp_nondet_u32 (); Rt.held_if_non_zero = vp_nondet_u32 ();
	Rt.set_when_waiting = vp_nondet_u32 (); Rt.clear_on_acquire = vp_nondet_u32 (); Rt.clear_on_uncontended_release = vp_nondet_u32 ();
	nsync_writer_type_ = &Wt;
	nsync_reader_type_ = &Rt;
}
static void setup (int hold, int spin, int waited) {
	any_types ();
	vp_reg_clear ();
	vp_fw_init ();
	vp_reg.mu_word = &the_mu.word;
	vp_reg.my_waiting = &the_w.nw.waiting;
	vp_mu_init_ghost (hold, spin, waited);
	the_mu.word = vp_mu_any_word ();
	the_mu.waiters = NULL;
	the_w.nw.waiting = 0;
}

void h_lock_slow (void) {
	int waited = vp_nondet_bool ();
	lock_type *lt;
	setup (VP_NONE, 0, waited);
	vp_g.l1_check = 1;
	lt = vp_nondet_bool () ? nsync_writer_type_ : nsync_reader_type_;
	nsync_mu_lock_slow_ (&the_mu, &the_w, waited ? MU_DESIG_WAKER : 0, lt);
	VP_CANARY ();
}
void h_release_spinlock (void) {
	setup ((int) (vp_nondet_u32 () % 3), 1, vp_nondet_bool ());
	mu_release_spinlock (&the_mu);
	VP_CANARY ();
}
void h_trylock (void) { setup (VP_NONE, 0, 0); (void) nsync_mu_trylock (&the_mu); VP_CANARY (); }
void h_rtrylock (void) { setup (VP_NONE, 0, 0); (void) nsync_mu_rtrylock (&the_mu); VP_CANARY (); }
void h_lock (void) { setup (VP_NONE, 0, 0); nsync_mu_lock (&the_mu); VP_CANARY (); }
void h_rlock (void) { setup (VP_NONE, 0, 0); nsync_mu_rlock (&the_mu); VP_CANARY (); }
void h_unlock (void) { setup (VP_WRITER, 0, 0); vp_g.release_ctx = 1; nsync_mu_unlock (&the_mu); VP_CANARY (); }
void h_runlock (void) { setup (VP_READER, 0, 0); vp_g.release_ctx = 1; nsync_mu_runlock (&the_mu); VP_CANARY (); }
