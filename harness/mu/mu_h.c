/* Harnesses for the mutex-word proofs.  Each builds the objects, registers the
   word with the rely/guarantee layer, picks an ARBITRARY ghost and word allowed
   by the function's precondition, and calls ONE function. */
#include "c_mu.h"

static lock_type Wt, Rt;
static nsync_mu the_mu;
static waiter the_w;

static void any_types (void) {
	Wt.zero_to_acquire = vp_nondet_u32 (); Wt.add_to_acquire = vp_nondet_u32 (); Wt.held_if_non_zero = vp_nondet_u32 ();
	Wt.set_when_waiting = vp_nondet_u32 (); Wt.clear_on_acquire = vp_nondet_u32 (); Wt.clear_on_uncontended_release = vp_nondet_u32 ();
	Rt.zero_to_acquire = vp_nondet_u32 (); Rt.add_to_acquire = vp_nondet_u32 (); Rt.held_if_non_zero = vp_nondet_u32 ();
	Rt.set_when_waiting = vp_nondet_u32 (); Rt.clear_on_acquire = vp_nondet_u32 (); Rt.clear_on_uncontended_release = vp_nondet_u32 ();
	nsync_writer_type_ = &Wt;
	nsync_reader_type_ = &Rt;
}
static void setup (int hold, int spin, int waited) {
	any_types ();
	vp_reg_clear ();
	vp_fw_init ();
	vp_reg.mu_word = &the_mu.word;
	vp_reg.my_waiting = &the_w.nw.waiting;
	vp_mu_init_ghost (hold, spin, waited);
	the_mu.word = vp_mu_any_word ();
	the_mu.waiters = NULL;
	the_w.nw.waiting = 0;
}

void h_lock_slow (void) {
	int waited = vp_nondet_bool ();
	lock_type *lt;
	setup (VP_NONE, 0, waited);
	vp_g.l1_check = 1;
	lt = vp_nondet_bool () ? nsync_writer_type_ : nsync_reader_type_;
	nsync_mu_lock_slow_ (&the_mu, &the_w, waited ? MU_DESIG_WAKER : 0, lt);
	VP_CANARY ();
}
void h_release_spinlock (void) {
	setup ((int) (vp_nondet_u32 () % 3), 1, vp_nondet_bool ());
	mu_release_spinlock (&the_mu);
	VP_CANARY ();
}
void h_trylock (void) { setup (VP_NONE, 0, 0); (void) nsync_mu_trylock (&the_mu); VP_CANARY (); }
void h_rtrylock (void) { setup (VP_NONE, 0, 0); (void) nsync_mu_rtrylock (&the_mu); VP_CANARY (); }
void h_lock (void) { setup (VP_NONE, 0, 0); nsync_mu_lock (&the_mu); VP_CANARY (); }
void h_rlock (void) { setup (VP_NONE, 0, 0); nsync_mu_rlock (&the_mu); VP_CANARY (); }
void h_unlock (void) { setup (VP_WRITER, 0, 0); vp_g.release_ctx = 1; nsync_mu_unlock (&the_mu); VP_CANARY (); }
void h_runlock (void) { setup (VP_READER, 0, 0); vp_g.release_ctx = 1; nsync_mu_runlock (&the_mu); VP_CANARY (); }

void h_unlock_slow (void) {
	lock_type *lt;
	int hold = vp_nondet_bool () ? VP_WRITER : VP_READER;
	setup (hold, 0, 0);
	vp_g.release_ctx = vp_nondet_bool ();
	vp_g.h4_check = 1;
	the_mu.waiters = vp_nondet_bool () ? NULL : &vp_fw.nw.q;
	lt = hold == VP_WRITER ? nsync_writer_type_ : nsync_reader_type_;
	{
		/* static (non-dfcc) instrumentation: pre/postcondition stated here with the contract's own macro text */
		int queued0 = vp_g.queued, waited0 = vp_g.waited; unsigned p0 = vp_g.p_calls, v0 = vp_g.v_calls; int lso0 = vp_g.last_sem_outcome;
		__CPROVER_assume (VP_PRE_UNLOCK_SLOW (&the_mu, lt) && !vp_g.released_with_desig && !vp_g.set_desig && !vp_wk.pending);
		nsync_mu_unlock_slow_ (&the_mu, lt);
		__CPROVER_assert (VP_POST_UNLOCK_SLOW_A (), "C01/C13: nsync_mu_unlock_slow_ returns with the lock and the spinlock released (and the mutex untouched afterwards)");
		__CPROVER_assert (vp_g.queued == queued0 && vp_g.waited == waited0 && vp_g.p_calls == p0 && vp_g.last_sem_outcome == lso0, "VP-AUX: unlock_slow leaves the waiter-side ghost alone");
		__CPROVER_assert (!vp_g.released_with_desig || vp_g.v_calls != v0, "C02: if the release leaves MU_DESIG_WAKER set by this thread, it has woken at least one waiter");
		__CPROVER_assert (!vp_wk.pending && vp_wk.cleared == vp_wk.posted, "C02/C04: every waiter whose flag was cleared has been posted");
		__CPROVER_assert (!vp_cvg.spin, "VP-AUX: unlock_slow does not touch the cv ghost");
	}
	VP_CANARY ();
}
