/* Spec-level lemmas for the mutex word (plain cbmc, loop-free, full-domain
   symbolic inputs: complete proofs).
   h_lemma_LJ: every transition the guarantee G allows (vp_mu_step returns 0)
   preserves the global invariant J, and implies the rely of every other
   thread.  This is a lemma over the contract predicates, not a model of the
   code.  J is the statement of C01 in terms of the ghosts of all threads. */
#include "vp_rg.h"

unsigned vp_mu_step (uint32_t old, uint32_t new_, struct vp_mu_ghost *g, int order);
int vp_mu_rely (uint32_t before, uint32_t after, const struct vp_mu_ghost *g);
int vp_mu_inv_g (uint32_t w, const struct vp_mu_ghost *g);

static struct vp_mu_ghost any_ghost (void) {
	struct vp_mu_ghost g;
	g.hold = (int) (vp_nondet_u32 () % 3); g.spin = vp_nondet_bool (); g.waited = vp_nondet_bool ();
	g.queued = vp_nondet_bool (); g.l1_check = vp_nondet_bool (); g.dead = 0; g.release_ctx = vp_nondet_bool ();
	g.set_desig = vp_nondet_bool (); g.v_calls = vp_nondet_u32 (); g.p_calls = vp_nondet_u32 (); g.cond_evals = vp_nondet_u32 ();
	g.longw_set = vp_nondet_bool (); g.enq_long = vp_nondet_bool (); g.enq_count = vp_nondet_u32 (); g.observer = vp_nondet_bool (); g.h4_check = 0; g.released_with_desig = vp_nondet_bool (); g.no_wakeup_ctx = vp_nondet_bool (); g.last_cond = vp_nondet_bool (); g.last_sem_outcome = 0;
	g.last_new = vp_nondet_u32 ();
	return g;
}
/* J: writer bit = number of writers (<= 1), reader field = number of readers, never both; spinlock bit = number of owners */
static int J (uint32_t w, const struct vp_mu_ghost *a, const struct vp_mu_ghost *b, uint32_t rest_w, uint32_t rest_r, uint32_t rest_s) {
	uint32_t nw = (a->hold == VP_WRITER) + (b->hold == VP_WRITER) + rest_w;
	uint32_t nr = (a->hold == VP_READER) + (b->hold == VP_READER) + rest_r;
	uint32_t ns = (a->spin != 0) + (b->spin != 0) + rest_s;
	return ((w & MU_WLOCK) != 0 ? 1u : 0u) == nw &&
	       (w & MU_RLOCK_FIELD) / MU_RLOCK == nr &&
	       !((w & MU_WLOCK) != 0 && (w & MU_RLOCK_FIELD) != 0) &&
	       ((w & MU_SPINLOCK) != 0 ? 1u : 0u) == ns;
}
void h_lemma_LJ (void) {
	struct vp_mu_ghost a = any_ghost (), b = any_ghost ();
	uint32_t w = vp_nondet_u32 (), n = vp_nondet_u32 ();
	uint32_t rest_w = vp_nondet_u32 () % 2, rest_r = vp_nondet_u32 (), rest_s = vp_nondet_u32 () % 2;
	int order = (int) (vp_nondet_u32 () % 4);
	unsigned viol;
	__CPROVER_assume (rest_r < (1u << 24) - 4);          /* fewer than 2^24-1 threads */
	__CPROVER_assume (J (w, &a, &b, rest_w, rest_r, rest_s));
	/* J implies the projection every thread relies on */
	__CPROVER_assert (vp_mu_inv_g (w, &a) && vp_mu_inv_g (w, &b), "C01: the per-thread invariant is a projection of J");
	/* the statement of C01 follows from J */
	__CPROVER_assert ((a.hold == VP_WRITER) + (b.hold == VP_WRITER) + rest_w <= 1, "C01: at most one writer");
	__CPROVER_assert (!((a.hold == VP_WRITER || b.hold == VP_WRITER || rest_w) && (a.hold == VP_READER || b.hold == VP_READER || rest_r)),
			  "C01: never a writer together with a reader");
	/* thread b makes a step that G allows */
	viol = vp_mu_step (w, n, &b, order);
	__CPROVER_assume (viol == 0);
	__CPROVER_assert (J (n, &a, &b, rest_w, rest_r, rest_s), "C01: every transition allowed by G preserves J");
	__CPROVER_assert (vp_mu_rely (w, n, &a), "C01: the rely of a thread is implied by the guarantee of every other thread");
	VP_CANARY ();
}

/* The real lock_type tables of common.c satisfy what the word-level proofs assume of them. */
#include "c_mu.h"
void h_lock_types (void) {
	lock_type *W = nsync_writer_type_, *R = nsync_reader_type_;
	__CPROVER_assert (W != NULL && R != NULL && W != R, "C01: two distinct lock types");
	__CPROVER_assert (W->add_to_acquire == MU_WLOCK && R->add_to_acquire == MU_RLOCK, "C01: a writer adds the writer bit, a reader adds one to the reader count");
	__CPROVER_assert ((W->zero_to_acquire & MU_ANY_LOCK) == MU_ANY_LOCK, "C01: a writer acquires only when nobody holds the mutex");
	__CPROVER_assert ((R->zero_to_acquire & MU_WLOCK) != 0, "C01: a reader acquires only when no writer holds the mutex");
	__CPROVER_assert ((W->zero_to_acquire & MU_LONG_WAIT) != 0 && (R->zero_to_acquire & MU_LONG_WAIT) != 0, "C14: MU_LONG_WAIT stops threads that have not waited");
	__CPROVER_assert ((R->zero_to_acquire & MU_WRITER_WAITING) != 0, "C14: MU_WRITER_WAITING stops readers that have not waited");
	__CPROVER_assert ((W->set_when_waiting & MU_WAITING) != 0 && (R->set_when_waiting & MU_WAITING) != 0, "C02: a thread that queues itself sets MU_WAITING");
	__CPROVER_assert (W->clear_on_uncontended_release == MU_ALL_FALSE, "C06: a writer's release clears MU_ALL_FALSE");
	__CPROVER_assert (VP_TYPES_OK (), "C01: the lock_type tables satisfy the assumptions of the word-level proofs");
	/* the enumerated bit constants are what the hooks assume (documented layout, common.h:136-147) */
	__CPROVER_assert (MU_WLOCK == 1u && MU_SPINLOCK == 2u && MU_WAITING == 4u && MU_DESIG_WAKER == 8u && MU_CONDITION == 16u &&
			  MU_WRITER_WAITING == 32u && MU_LONG_WAIT == 64u && MU_ALL_FALSE == 128u && MU_RLOCK == 256u &&
			  MU_RLOCK_FIELD == 0xffffff00u, "VP-AUX: bit layout of the mutex word as used by literal constants in loop contracts");
	VP_CANARY ();
}
