/* Wrapper TU: the unmodified internal/mu.c, textually included (found through
   the include path), followed by contract-carrying redeclarations of its
   static functions. */
#include "c_mu.h"
#include "mu.c"

static void mu_release_spinlock (nsync_mu *mu)
__CPROVER_requires (VP_MU_IS (mu) && vp_g.spin && !vp_g.dead)
__CPROVER_ensures (!vp_g.spin && vp_g.hold == __CPROVER_old (vp_g.hold) && vp_g.waited == __CPROVER_old (vp_g.waited))
__CPROVER_ensures (vp_g.enq_count == __CPROVER_old (vp_g.enq_count) && (vp_g.dead == 0 || vp_g.release_ctx))
__CPROVER_assigns (vp_g.spin, vp_g.last_new, vp_g.dead, mu->word);

/* queue-link helper (same_condition rings), abstracted in the word-level proof: returns NULL or some record of the queue */
static nsync_dll_element_ *skip_past_same_condition (nsync_dll_list_ waiter_list, nsync_dll_element_ *p)
__CPROVER_requires (p != NULL)
__CPROVER_ensures (__CPROVER_return_value == NULL || __CPROVER_return_value == &vp_fw.nw.q)
__CPROVER_assigns ();
