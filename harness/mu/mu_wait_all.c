/* Wrapper TU for the unmodified internal/mu_wait.c. */
#include "c_mu.h"
#include "mu_wait.c"

static int mu_try_acquire_after_timeout_or_cancel (nsync_mu *mu, lock_type *l_type, waiter *w, uint32_t remove_count)
__CPROVER_requires (VP_TYPES_OK () && VP_IS_LTYPE (l_type) && VP_MU_IS (mu) && VP_W_IS (w))
__CPROVER_requires (VP_IDLE () && !vp_g.waited)
__CPROVER_ensures (!vp_g.spin && !vp_g.dead && !vp_g.waited && (__CPROVER_return_value == 0 || __CPROVER_return_value == 1))
__CPROVER_ensures (__CPROVER_return_value ? (vp_g.hold == VP_HOLD_OF (l_type) && !vp_g.queued && w->nw.waiting == 0)
					  : (vp_g.hold == VP_NONE && vp_g.queued == __CPROVER_old (vp_g.queued)))
__CPROVER_assigns (VP_G_STEP, vp_g.queued, VP_FW_DATA, mu->word, mu->waiters, w->nw.waiting, w->remove_count);

static lock_type Wt, Rt;
static nsync_mu the_mu;
static waiter the_w;
static void any_types (void) {
	Wt.zero_to_acquire = vp_nondet_u32 (); Wt.add_to_acquire = vp_nondet_u32 (); Wt.held_if_non_zero = vp_nondet_u32 ();
	Wt.set_when_waiting = vp_nondet_u32 (); Wt.clear_on_acquire = vp_nondet_u32 (); Wt.clear_on_uncontended_release = vp_nondet_u32 ();
	Rt.zero_to_acquire = vp_nondet_u32 (); Rt.add_to_acquire = vp_nondet_u32 (); Rt.held_if_non_zero = vp_nondet_u32 ();
	Rt.set_when_waiting = vp_nondet_u32 (); Rt.clear_on_acquire = vp_nondet_u32 (); Rt.clear_on_uncontended_release = vp_nondet_u32 ();
	nsync_writer_type_ = &Wt;
	nsync_reader_type_ = &Rt;
}
static void setup (int hold, int spin, int waited) {
	any_types ();
	vp_reg_clear ();
	vp_fw_init ();
	vp_reg.mu_word = &the_mu.word;
	vp_reg.my_waiting = &the_w.nw.waiting;
	vp_mu_init_ghost (hold, spin, waited);
	the_mu.word = vp_mu_any_word ();
	the_mu.waiters = NULL;
	the_w.nw.waiting = 0;
}

void h_try_acquire (void) {
	lock_type *lt;
	setup (VP_NONE, 0, 0);
	vp_g.queued = 1;                    /* the thread is on the queue, its waiting flag set */
	the_w.nw.waiting = 1;
	lt = vp_nondet_bool () ? nsync_writer_type_ : nsync_reader_type_;
	(void) mu_try_acquire_after_timeout_or_cancel (&the_mu, lt, &the_w, vp_nondet_u32 ());
	VP_CANARY ();
}
void h_mu_wait (void) {
	int hold = vp_nondet_bool () ? VP_WRITER : VP_READER;
	nsync_time d; d.tv_sec = vp_nondet_i64 (); d.tv_nsec = vp_nondet_i64 ();
	setup (hold, 0, 0);
	vp_reg.my_waiting = NULL;
	{
		/* this group uses goto-instrument's static contract instrumentation (see props/shared.py), under which the
		   pre/postcondition of the function under proof are stated here, with the same macro text as the contract */
		int (*cond) (const void *) = vp_nondet_bool () ? vp_condition : NULL;
		int r;
		__CPROVER_assume (VP_PRE_MU_WAIT (&the_mu, cond));
		r = nsync_mu_wait_with_deadline (&the_mu, cond, NULL, NULL, d, NULL);
		__CPROVER_assert (VP_POST_MU_WAIT_HOLD (hold), "C01/C05: the wait returns holding the mutex in the mode in which the caller held it");
		__CPROVER_assert (VP_POST_MU_WAIT_RESULT (r, cond), "C05: returns 0 exactly when the condition is true at return; a non-zero result is the outcome of its own timed/cancellable sleep");
	}
	VP_CANARY ();
}
void h_unlock_without_wakeup (void) {
	setup (VP_WRITER, 0, 0);
	vp_g.release_ctx = 1;
	vp_g.no_wakeup_ctx = 1;
	nsync_mu_unlock_without_wakeup (&the_mu);
	VP_CANARY ();
}
