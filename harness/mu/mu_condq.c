/* C06, queue level: the same_condition rings of the REAL internal/mu.c
   (nsync_maybe_merge_conditions_, nsync_remove_from_mu_queue_, skip_past_same_condition)
   on the REAL internal/dll.c.

   h_merge          loop-free, full-domain: complete proof of the grouping rule for one call of
                    nsync_maybe_merge_conditions_ (arbitrary argument pointers, arbitrary answer of
                    condition_arg_eq, rings of one or two records on either side).
   h_condq          bounded: VP_K waiter records with conditions drawn from a small set, VP_S queue
                    operations in arbitrary order, performed through the real functions in the way
                    their three call sites do (mu_wait.c enqueue, mu.c scan / re-join, timeout removal);
                    after every sequence of at most VP_S operations: whatever skip_past_same_condition would skip is equivalent
                    to the record whose condition was evaluated. */
#include "c_mu.h"
#include "mu.c"

#ifndef VP_K
#define VP_K 4
#endif
#ifndef VP_KINDS
#define VP_KINDS 7     /* 4: only none / f1(A1) / f1(A2) / f1(B), all with condition_arg_eq (the pairwise rule for the rest is h_merge's) */
#endif
#ifndef VP_S
#define VP_S 6
#endif

/* the records are separate objects (not an array): a pointer into them is an (object, constant offset) pair for cbmc */
static waiter W0, W1, W2, W3, W4, W5;
static waiter *const WP[6] = { &W0, &W1, &W2, &W3, &W4, &W5 };
#define W_(i) (*WP[i])
static int A1, A2, B1;                        /* condition arguments: A1 and A2 are equivalent, B1 is not */
static int f1 (const void *v) { (void) v; return vp_nondet_bool (); }
static int f2 (const void *v) { (void) v; return vp_nondet_bool (); }

/* ------------------------------------------------------------------ h_merge */
static const void *eq_a, *eq_b;
static int eq_calls, eq_ret;
static int eq_rec (const void *a, const void *b) { eq_calls++; eq_a = a; eq_b = b; eq_ret = vp_nondet_bool (); return eq_ret; }

static void init_rec (int i) {
	W_(i).tag = WAITER_TAG; W_(i).nw.tag = NSYNC_WAITER_TAG;
	W_(i).nw.sem = &W_(i).sem;
	nsync_dll_init_ (&W_(i).nw.q, &W_(i).nw);
	nsync_dll_init_ (&W_(i).same_condition, &W_(i));
	W_(i).cond.f = NULL; W_(i).cond.v = NULL; W_(i).cond.eq = NULL;
}
static void link_after (nsync_dll_element_ *a, nsync_dll_element_ *b) {   /* harness-only ring construction: b directly after a */
	b->next = a->next; b->prev = a; a->next->prev = b; a->next = b;
}
static void any_cond (int i) {
	uint32_t k = vp_nondet_u32 () % 3;
	W_(i).cond.f = k == 0 ? NULL : k == 1 ? f1 : f2;
	{ uint32_t a = vp_nondet_u32 () % 4;   /* only equality of the two arguments matters to the code: four values cover every case */
	  W_(i).cond.v = a == 0 ? NULL : a == 1 ? (void *) &A1 : a == 2 ? (void *) &A2 : (void *) &B1; }
	W_(i).cond.eq = vp_nondet_bool () ? eq_rec : NULL;
}
void h_merge (void) {
	int i, p_null = vp_nondet_bool (), n_null = vp_nondet_bool (), merged;
	nsync_dll_element_ old[VP_K];
	for (i = 0; i < 4; i++) init_rec (i);
	any_cond (0); any_cond (1);
	/* W_(0) is p, W_(1) is n; W_(2) may already share p's ring (then it has p's condition), W_(3) may precede n in n's ring */
	if (vp_nondet_bool ()) { W_(2).cond = W_(0).cond; link_after (&W_(0).same_condition, &W_(2).same_condition); }
	if (vp_nondet_bool ()) { W_(3).cond = W_(1).cond; link_after (&W_(1).same_condition, &W_(3).same_condition); }
	for (i = 0; i < 4; i++) old[i] = W_(i).same_condition;
	eq_calls = 0;
	nsync_maybe_merge_conditions_ (p_null ? NULL : &W_(0).nw.q, n_null ? NULL : &W_(1).nw.q);
	merged = (W_(0).same_condition.next == &W_(1).same_condition);
	__CPROVER_assert (!merged || (!p_null && !n_null && W_(0).cond.f != NULL && W_(0).cond.f == W_(1).cond.f &&
				      (W_(0).cond.v == W_(1).cond.v ||
				       (eq_calls != 0 && eq_ret != 0 &&
					((eq_a == W_(0).cond.v && eq_b == W_(1).cond.v) || (eq_a == W_(1).cond.v && eq_b == W_(0).cond.v))))),
			  "C06: two waiters are grouped as 'same condition' only if they have the same non-NULL function and identical arguments, "
			  "or condition_arg_eq applied to their two arguments says they are equivalent");
	__CPROVER_assert (eq_calls <= 1, "C06: condition_arg_eq is consulted at most once per comparison");
	for (i = 0; i < 4; i++) {
		__CPROVER_assert (merged || (W_(i).same_condition.next == old[i].next && W_(i).same_condition.prev == old[i].prev),
				  "C06: records that are not equivalent keep their same_condition rings unchanged");
		__CPROVER_assert (W_(i).same_condition.next->prev == &W_(i).same_condition && W_(i).same_condition.prev->next == &W_(i).same_condition,
				  "C06: same_condition rings stay well linked");
		__CPROVER_assert (W_(i).nw.q.next == &W_(i).nw.q && W_(i).nw.q.prev == &W_(i).nw.q, "C06: merging conditions does not touch the queue links");
	}
	VP_CANARY ();
}

/* ------------------------------------------------------------------ h_condq */
static int kind[VP_K];            /* condition kind of each record, see set_kind */
static int where[VP_K];           /* 0 off every list, 1 on mu->waiters (M), 2 on the scanner's new_waiters (N), 3 on the scanner's waiters (L) */
static nsync_dll_list_ M, N, L;

static int cls (const void *v) { return v == (const void *) &B1 ? 2 : 1; }
static int eq_cls (const void *a, const void *b) {
	__CPROVER_assert ((a == (const void *) &A1 || a == (const void *) &A2 || a == (const void *) &B1) &&
			  (b == (const void *) &A1 || b == (const void *) &A2 || b == (const void *) &B1),
			  "C06: condition_arg_eq is applied to condition arguments of queued waiters only");
	return cls (a) == cls (b);
}
static void set_kind (int i, int k) {
	kind[i] = k;
	W_(i).cond.f = k == 0 ? NULL : k == 4 ? f2 : f1;
	W_(i).cond.v = k == 0 ? NULL : (k == 2 || k == 6) ? (void *) &A2 : k == 3 ? (void *) &B1 : (void *) &A1;
	W_(i).cond.eq = (k == 0 || k >= 5) ? NULL : eq_cls;
}
/* semantic equivalence: same function and equivalent arguments - the two conditions always have the same value */
static int equiv (int i, int j) {
	return W_(i).cond.f != NULL && W_(i).cond.f == W_(j).cond.f && cls (W_(i).cond.v) == cls (W_(j).cond.v);
}
/* all indices into W[] are compile-time constants after unwinding (constant-bounded loops): keeps every pointer concrete for cbmc */
static int equiv_ptr (int ip, nsync_dll_element_ *q) {      /* q is a record of W[] equivalent to W_(ip) */
	int j, r = 0;
	for (j = 0; j < VP_K; j++) { if (q == &W_(j).nw.q) r = equiv (ip, j); }
	return r;
}
static int tag_ptr (nsync_dll_element_ *q) {                /* where[] of the record q, or -1 */
	int j, r = -1;
	for (j = 0; j < VP_K; j++) { if (q == &W_(j).nw.q) r = where[j]; }
	return r;
}
/* the list holds exactly the records enqueued on it; for each of them that has a condition, everything
   skip_past_same_condition (list, p) jumps over is equivalent to p */
static void check_list (nsync_dll_list_ list, int tag) {
	nsync_dll_element_ *p, *q, *s;
	int a, b, ip, cnt = 0, len = 0;
	for (p = nsync_dll_first_ (list), a = 0; p != NULL && a < VP_K; p = nsync_dll_next_ (list, p), a++) {
		__CPROVER_assert (tag_ptr (p) == tag, "C06: the queue holds only records enqueued on it");
		len++;
	}
	__CPROVER_assert (p == NULL, "C06: the queue is a finite sequence of the enqueued records");
	for (ip = 0; ip < VP_K; ip++) {
		if (where[ip] != tag) continue;
		cnt++;
		p = &W_(ip).nw.q;
		if (W_(ip).cond.f == NULL) {
			__CPROVER_assert (W_(ip).same_condition.next == &W_(ip).same_condition, "C06: a waiter without a condition is in no same_condition group");
			continue;
		}
		s = skip_past_same_condition (list, p);
		for (q = nsync_dll_next_ (list, p), b = 0; q != NULL && q != s && b < VP_K; q = nsync_dll_next_ (list, q), b++) {
			__CPROVER_assert (equiv_ptr (ip, q),
					  "C06: a waiter is skipped after a false condition only if its own condition is equivalent (same function, same or condition_arg_eq-equivalent argument)");
		}
		__CPROVER_assert (q == s, "C06: the record the scan continues with lies further down the same queue");
	}
	__CPROVER_assert (cnt == len, "C06: no enqueued record is lost from its queue");
}
static void check_all (void) {
	int i;
	check_list (M, 1); check_list (N, 2); check_list (L, 3);
	for (i = 0; i < VP_K; i++) {
		__CPROVER_assert (W_(i).same_condition.next->prev == &W_(i).same_condition && W_(i).same_condition.prev->next == &W_(i).same_condition,
				  "C06: same_condition rings stay well linked");
		__CPROVER_assert (where[i] != 0 || (W_(i).same_condition.next == &W_(i).same_condition && W_(i).nw.q.next == &W_(i).nw.q),
				  "C06: a record that left the queue is in no same_condition group (it can be enqueued again)");
	}
}
static void do_op (uint32_t op, int i) {      /* i is a constant at every call */
	nsync_dll_element_ *e = &W_(i).nw.q;
	int j;
	if (op == 0 && where[i] == 0) {                       /* first wait: mu_wait.c, "first wait goes to end of queue" */
		nsync_maybe_merge_conditions_ (nsync_dll_last_ (M), e);
		M = nsync_dll_make_last_in_list_ (M, e);
		where[i] = 1;
	} else if (op == 1 && where[i] == 0) {                /* woken, condition false again: "subsequent waits go to front of queue" */
		nsync_maybe_merge_conditions_ (e, nsync_dll_first_ (M));
		M = nsync_dll_make_first_in_list_ (M, e);
		where[i] = 1;
	} else if (op == 2 && where[i] == 1 && N == NULL && L == NULL) {   /* timeout / cancellation: needs the write lock, so no scan is active */
		M = nsync_remove_from_mu_queue_ (M, e);
		where[i] = 0;
	} else if (op == 3 && N == NULL) {                    /* nsync_mu_unlock_slow_: pick up the (next) set of new waiters */
		N = M; M = NULL;
		for (j = 0; j < VP_K; j++) { if (where[j] == 1) where[j] = 2; }
	} else if (op == 4 && where[i] == 2) {                /* nsync_mu_unlock_slow_: wake this thread */
		N = nsync_remove_from_mu_queue_ (N, e);
		where[i] = 0;
	} else if (op == 5 && N != NULL) {                    /* nsync_mu_unlock_slow_: add the new_waiters to the last of the waiters */
		nsync_maybe_merge_conditions_ (nsync_dll_last_ (L), nsync_dll_first_ (N));
		L = nsync_dll_make_last_in_list_ (L, nsync_dll_last_ (N));
		N = NULL;
		for (j = 0; j < VP_K; j++) { if (where[j] == 2) where[j] = 3; }
	} else if (op == 6 && N == NULL && M == NULL) {       /* nsync_mu_unlock_slow_: return the remaining waiters to mu->waiters */
		M = L; L = NULL;
		for (j = 0; j < VP_K; j++) { if (where[j] == 3) where[j] = 1; }
	}
}
void h_condq (void) {
	int i, s;
	vp_reg_clear ();
	for (i = 0; i < VP_K; i++) { init_rec (i); where[i] = 0; W_(i).remove_count = 0; set_kind (i, (int) (vp_nondet_u32 () % VP_KINDS)); }
	M = NULL; N = NULL; L = NULL;
	for (s = 0; s < VP_S; s++) {
#ifdef VP_SCRIPT
		/* the operation codes of this scenario are fixed (VP_SCRIPT), the records they apply to and the conditions are arbitrary:
		   l/f enqueue last/first, E either, t timeout removal, g pick-up, w wake, j re-join, p put back, ? any */
		static const char script[] = VP_SCRIPT;
		char c = s < (int) sizeof (script) - 1 ? script[s] : '-';
		uint32_t op = c == 'l' ? 0u : c == 'f' ? 1u : c == 'E' ? (vp_nondet_u32 () % 2) : c == 't' ? 2u : c == 'g' ? 3u : c == 'w' ? 4u :
			      c == 'j' ? 5u : c == 'p' ? 6u : c == '?' ? (vp_nondet_u32 () % 7) : 7u;
#else
		uint32_t op = vp_nondet_u32 () % 7;
#endif
		int sel = (int) (vp_nondet_u32 () % VP_K);
#ifdef VP_SCRIPT
		/* records are interchangeable (their conditions are arbitrary), so the n-th enqueue of a scenario uses record n; a record that
		   left the queue is shown to be indistinguishable from a fresh one (check_all), so re-enqueueing needs no separate case */
		if (op <= 1u) { sel = 0; for (i = 0; i < s; i++) { if (script[i] == 'l' || script[i] == 'f' || script[i] == 'E') sel++; } }
#endif
		for (i = 0; i < VP_K; i++) { if (i == sel) do_op (op, i); }
#ifdef VP_SCRIPT
		check_all ();
#endif
	}
	/* an operation whose guard is false is a no-op, so the state after every shorter sequence is also a final state: one check at the end covers
	   'after every operation' */
	check_all ();
	VP_CANARY ();
}
