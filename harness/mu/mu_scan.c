/* C06 / C02, queue content (bounded): the REAL nsync_mu_unlock_slow_ of internal/mu.c on the REAL internal/dll.c, with VP_N concrete
   waiter records on mu->waiters (writer / reader, each with no condition, a false condition or a true condition), enqueued as the
   real enqueue paths do (same_condition merging through the real nsync_maybe_merge_conditions_).  Sequential: no other thread acts
   during the call; the word-protocol obligations of the rely/guarantee layer still apply at every atomic step.

   After the call:  which waiters were woken, what is left on the queue, and what the released word promises about it. */
#include "c_mu.h"
#include "mu.c"

#ifndef VP_N
#define VP_N 2
#endif
static lock_type Wt, Rt;
static nsync_mu the_mu;
/* separate objects, constant indices: see harness/mu/mu_condq.c */
static waiter W0, W1, W2, W3;
static waiter *const WP[4] = { &W0, &W1, &W2, &W3 };
#define W_(i) (*WP[i])
static int posted[4];
static int kind_of[4];            /* 0..5: writer none/false/true, reader none/false/true */
static int a_false, a_true;       /* condition arguments */
static unsigned evals;

static int cond_false (const void *v) {
	__CPROVER_assert (vp_g.hold != VP_NONE, "C06: a condition is only evaluated by a thread that holds the mutex");
	__CPROVER_assert (v == (const void *) &a_false, "C06: a condition is evaluated on its own argument");
	evals++; return 0;
}
static int cond_true (const void *v) {
	__CPROVER_assert (vp_g.hold != VP_NONE, "C06: a condition is only evaluated by a thread that holds the mutex");
	__CPROVER_assert (v == (const void *) &a_true, "C06: a condition is evaluated on its own argument");
	evals++; return 1;
}
void nsync_mu_semaphore_init (nsync_semaphore *s) { (void) s; }
void nsync_mu_semaphore_p (nsync_semaphore *s) { (void) s; vp_g.p_calls++; }
int nsync_mu_semaphore_p_with_deadline (nsync_semaphore *s, nsync_time d) { (void) s; (void) d; vp_g.p_calls++; return 0; }
void nsync_mu_semaphore_v (nsync_semaphore *s) {
	int i, found = 0;
	for (i = 0; i < 4; i++) {
		if (s == &W_(i).sem) {
			found = 1;
			__CPROVER_assert (W_(i).nw.waiting == 0, "C02: a waiter's semaphore is posted only after its waiting flag was cleared");
			__CPROVER_assert (!posted[i], "C02: each waiter is posted at most once per wake-up");
			posted[i] = 1;
		}
	}
	__CPROVER_assert (found, "C02: only semaphores of waiters taken from the queue are posted");
	vp_g.v_calls++;
}
static int on_queue (int i) {
	nsync_dll_element_ *p; int k = 0, hit = 0;
	for (p = nsync_dll_first_ (the_mu.waiters); p != NULL && k < 6; p = nsync_dll_next_ (the_mu.waiters, p)) { if (p == &W_(i).nw.q) hit = 1; k++; }
	return hit;
}
static int has_cond (int i) { return kind_of[i] % 3 != 0; }
static int cond_now (int i) { return kind_of[i] % 3 != 1; }      /* no condition, or a true one: the waiter can proceed */
static int is_rd (int i) { return kind_of[i] >= 3; }

static uint32_t word_extra;   /* MU_WRITER_WAITING / MU_LONG_WAIT / stale MU_ALL_FALSE variations */
static int hold_of;
static void build (void) {
	int i, any_cond = 0;
	Wt.zero_to_acquire = MU_WZERO_TO_ACQUIRE; Wt.add_to_acquire = MU_WADD_TO_ACQUIRE; Wt.held_if_non_zero = MU_WHELD_IF_NON_ZERO;
	Wt.set_when_waiting = MU_WSET_WHEN_WAITING; Wt.clear_on_acquire = MU_WCLEAR_ON_ACQUIRE; Wt.clear_on_uncontended_release = MU_WCLEAR_ON_UNCONTENDED_RELEASE;
	Rt.zero_to_acquire = MU_RZERO_TO_ACQUIRE; Rt.add_to_acquire = MU_RADD_TO_ACQUIRE; Rt.held_if_non_zero = MU_RHELD_IF_NON_ZERO;
	Rt.set_when_waiting = MU_RSET_WHEN_WAITING; Rt.clear_on_acquire = MU_RCLEAR_ON_ACQUIRE; Rt.clear_on_uncontended_release = MU_RCLEAR_ON_UNCONTENDED_RELEASE;
	nsync_writer_type_ = &Wt; nsync_reader_type_ = &Rt;
	vp_reg_clear ();
	vp_reg.mu_word = &the_mu.word;
	vp_mu_init_ghost (hold_of, 0, 0);
	vp_g.h4_check = 1;
	the_mu.waiters = NULL;
	evals = 0;
	for (i = 0; i < 4; i++) {
		W_(i).tag = WAITER_TAG; W_(i).nw.tag = NSYNC_WAITER_TAG; W_(i).nw.sem = &W_(i).sem;
		nsync_dll_init_ (&W_(i).nw.q, &W_(i).nw);
		nsync_dll_init_ (&W_(i).same_condition, &W_(i));
		W_(i).nw.flags = NSYNC_WAITER_FLAG_MUCV; W_(i).cv_mu = NULL; W_(i).remove_count = 0; W_(i).nw.waiting = 0; posted[i] = 0;
		W_(i).l_type = is_rd (i) ? nsync_reader_type_ : nsync_writer_type_;
		W_(i).cond.f = kind_of[i] % 3 == 0 ? NULL : kind_of[i] % 3 == 1 ? cond_false : cond_true;
		W_(i).cond.v = kind_of[i] % 3 == 0 ? NULL : kind_of[i] % 3 == 1 ? (void *) &a_false : (void *) &a_true;
		W_(i).cond.eq = NULL;
		if (i < VP_N) {
			/* as nsync_mu_lock_slow_ / nsync_mu_wait_with_deadline enqueue a first-time waiter: merge with the tail, go last */
			W_(i).nw.waiting = 1;
			nsync_maybe_merge_conditions_ (nsync_dll_last_ (the_mu.waiters), &W_(i).nw.q);
			the_mu.waiters = nsync_dll_make_last_in_list_ (the_mu.waiters, &W_(i).nw.q);
			if (has_cond (i)) any_cond = 1;
		}
	}
	the_mu.word = (hold_of == VP_WRITER ? MU_WLOCK : MU_RLOCK) | (VP_N > 0 ? MU_WAITING : 0) | (any_cond ? MU_CONDITION : 0) | word_extra;
	__CPROVER_assume (vp_mu_inv_me (the_mu.word));
}
static void one_scan (void) {
	int i, left_eligible = 0, left_with_cond = 0, any_left = 0, any_posted = 0, all_left_false = 1;
	uint32_t w;
	build ();
	nsync_mu_unlock_slow_ (&the_mu, hold_of == VP_WRITER ? nsync_writer_type_ : nsync_reader_type_);
	w = the_mu.word;
	__CPROVER_assert ((w & (MU_WLOCK | MU_RLOCK_FIELD | MU_SPINLOCK)) == 0 && vp_g.hold == VP_NONE && !vp_g.spin, "C01: the release leaves the mutex free and the queue spinlock released");
	for (i = 0; i < 4; i++) {
		if (i >= VP_N) { __CPROVER_assert (!posted[i], "C02: only queued waiters are woken"); continue; }
		if (posted[i]) {
			any_posted = 1;
			__CPROVER_assert (!on_queue (i) && W_(i).nw.waiting == 0, "C02: a woken waiter has been taken off the queue and its flag cleared");
			__CPROVER_assert (cond_now (i), "C06: only waiters without a condition, or whose condition is true, are woken");
		} else {
			__CPROVER_assert (on_queue (i) && W_(i).nw.waiting == 1, "C02/C06: a waiter that was not woken is still queued and still waiting: none is dropped");
			any_left = 1;
			if (cond_now (i)) left_eligible = 1;
			if (has_cond (i)) left_with_cond = 1;
			if (cond_now (i)) all_left_false = 0;
		}
	}
	__CPROVER_assert (!any_left || (w & MU_WAITING) != 0, "C02: MU_WAITING stays set while waiters remain queued");
	__CPROVER_assert (!left_with_cond || (w & MU_CONDITION) != 0, "C06: MU_CONDITION stays set while conditional waiters remain queued (later releases must test conditions)");
	__CPROVER_assert ((w & MU_ALL_FALSE) == 0 || all_left_false,
			  "C06: MU_ALL_FALSE is published only if every waiter left on the queue has a condition that is false now (a later nsync_mu_unlock_without_wakeup or reader release skips the scan on its strength)");
	__CPROVER_assert (!left_eligible || (any_posted && (w & MU_DESIG_WAKER) != 0),
			  "C02/C06: a waiter that could proceed is left asleep only if another waiter was woken and MU_DESIG_WAKER records that it will hand the mutex on");
	__CPROVER_assert (any_posted == ((w & MU_DESIG_WAKER) != 0) || (word_extra & MU_DESIG_WAKER) != 0, "C02: MU_DESIG_WAKER is left set exactly when a waiter was woken");
}
#define VP_EXTRAS 0, MU_WRITER_WAITING, MU_LONG_WAIT
void h_scan (void) {
	static const uint32_t extras[] = { VP_EXTRAS };
	int e, k0, k1, k2, k3;
	for (hold_of = VP_READER; hold_of <= VP_WRITER; hold_of++) for (e = 0; e < (int) (sizeof (extras) / sizeof (extras[0])); e++)
	for (k0 = 0; k0 < (VP_N > 0 ? 6 : 1); k0++) for (k1 = 0; k1 < (VP_N > 1 ? 6 : 1); k1++) for (k2 = 0; k2 < (VP_N > 2 ? 6 : 1); k2++) for (k3 = 0; k3 < (VP_N > 3 ? 6 : 1); k3++) {
		word_extra = extras[e]; kind_of[0] = k0; kind_of[1] = k1; kind_of[2] = k2; kind_of[3] = k3;
		one_scan ();
	}
	VP_CANARY ();
}
