/* Wrapper TU for the unmodified internal/common.c: contracts first, then the
   file, then the harnesses for its functions. */
#include "c_mu.h"
#include "common.c"

static nsync_mu the_mu;
static nsync_atomic_uint32_ other_word;

void h_spin_test_and_set_mu (void) {
	uint32_t test = vp_nondet_u32 (), set = vp_nondet_u32 (), clear = vp_nondet_u32 ();
	vp_reg_clear ();
	vp_fw_init ();
	vp_reg.mu_word = &the_mu.word;
	vp_mu_init_ghost ((int) (vp_nondet_u32 () % 3), 0, vp_nondet_bool ());
	vp_g.observer = vp_nondet_bool ();
	vp_g.queued = vp_nondet_bool ();
	vp_g.set_desig = vp_nondet_bool ();
	the_mu.word = vp_mu_any_word ();
	(void) nsync_spin_test_and_set_ (&the_mu.word, test, set, clear);
	VP_CANARY ();
}
void h_spin_test_and_set_other (void) {
	vp_reg_clear ();
	vp_fw_init ();
	vp_mu_init_ghost (0, 0, 0);
	(void) nsync_spin_test_and_set_ (&other_word, vp_nondet_u32 (), vp_nondet_u32 (), vp_nondet_u32 ());
	VP_CANARY ();
}
static nsync_cv the_cv;
void h_spin_test_and_set_cv (void) {
	vp_reg_clear ();
	vp_fw_init ();
	vp_reg.cv_word = &the_cv.word;
	vp_mu_init_ghost (0, 0, 0);
	the_cv.word = vp_nondet_u32 () & (CV_SPINLOCK | CV_NON_EMPTY);
	(void) nsync_spin_test_and_set_ (&the_cv.word, vp_nondet_u32 (), vp_nondet_u32 (), vp_nondet_u32 ());
	VP_CANARY ();
}
void h_spin_delay (void) {
	(void) nsync_spin_delay_ (vp_nondet_u32 ());
	VP_CANARY ();
}
