/* Wrapper TU: contracts, the unmodified internal/once.c, the contract of its
   static implementation function, harnesses. */
#include "vp_once.h"
#include "vp_clock.h"
#include "c_time.h"

unsigned nsync_spin_delay_ (unsigned attempts)
__CPROVER_ensures (__CPROVER_return_value <= attempts + 1u || __CPROVER_return_value == attempts)
__CPROVER_assigns ();

#include "once.c"

#define VP_O_FIELDS vp_o.winner, vp_o.runs, vp_o.stored_done, vp_o.saw_done_acq, vp_o.first_load_valid, vp_o.first_load
#define VP_AMU_FIELDS vp_amu.held, vp_amu.lock_calls, vp_amu.unlock_calls, vp_amu.cv_waits, vp_amu.cv_broadcasts
#define VP_ONCE_IS(once) ((once) != NULL && __CPROVER_rw_ok ((once), sizeof (*(once))) && (once) == vp_reg.once_word)
#define VP_FN_OK(f, farg) (((f) == vp_once_f && (farg) == NULL) || ((f) == NULL && (farg) == vp_once_farg))
/* "no call returns before that run has completed": completion was observed with acquire order, or performed by this call.
   "exactly one of the calls runs its function, exactly once": this call ran it iff it is the claimant, and then exactly once. */
#define VP_ONCE_POST() ((vp_o.saw_done_acq || vp_o.stored_done) && vp_o.runs == (vp_o.winner ? 1u : 0u) && (!vp_o.winner || vp_o.stored_done))

static void nsync_run_once_impl (nsync_once *once, struct once_sync_s *s, void (*f) (void), void (*farg) (void *arg), void *arg)
__CPROVER_requires (VP_ONCE_IS (once) && VP_FN_OK (f, farg))
__CPROVER_requires (!vp_amu.held[0] && (s == NULL || (__CPROVER_rw_ok (s, sizeof (*s)) && vp_amu.addr[0] == &s->once_mu)))
__CPROVER_requires (!vp_o.winner && vp_o.runs == 0 && !vp_o.stored_done && !vp_o.saw_done_acq)
__CPROVER_ensures (VP_ONCE_POST ())
__CPROVER_ensures (!vp_amu.held[0])                                                 /* the internal lock is released again */
__CPROVER_ensures (vp_o.first_load_valid && (!__CPROVER_old (vp_o.first_load_valid) || vp_o.first_load == __CPROVER_old (vp_o.first_load)))
__CPROVER_ensures (s != NULL || (vp_amu.lock_calls == __CPROVER_old (vp_amu.lock_calls) && vp_amu.cv_waits == __CPROVER_old (vp_amu.cv_waits)))  /* the spin variants never block on a lock */
__CPROVER_assigns (*once, VP_O_FIELDS, VP_AMU_FIELDS, vp_clk.valid, vp_clk.last, vp_clk.reads);

static nsync_once the_once;
static void setup (void) {
	vp_reg_clear ();
	vp_amu_reset ();
	vp_once_init_ghost ();
	vp_reg.once_word = &the_once;
	the_once = vp_nondet_u32 ();
	__CPROVER_assume (the_once <= 2u);
}
void h_once_impl (void) {
	struct once_sync_s *s;
	int use_f = vp_nondet_bool ();
	setup ();
	s = vp_nondet_bool () ? &once_sync[0] : NULL;
	vp_amu_register (&once_sync[0].once_mu, 0);
	nsync_run_once_impl (&the_once, s, use_f ? vp_once_f : NULL, use_f ? NULL : vp_once_farg, NULL);
	VP_CANARY ();
}
/* The four public entry points (chosen nondeterministically): each returns only after completion, and a call on a once that
   is already done (its first load returns 2) returns without taking any lock and without waiting. */
void h_once_public (void) {
	uint32_t which = vp_nondet_u32 () % 4;
	int i;
	setup ();
	for (i = 0; i != (int) (sizeof (once_sync) / sizeof (once_sync[0])); i++) { }
	/* whichever once_sync slot the hash selects is the registered internal mutex */
	vp_amu_register (&(NSYNC_ONCE_SYNC_ (&the_once))->once_mu, 0);
	if (which == 0) nsync_run_once (&the_once, vp_once_f);
	else if (which == 1) nsync_run_once_arg (&the_once, vp_once_farg, NULL);
	else if (which == 2) nsync_run_once_spin (&the_once, vp_once_f);
	else nsync_run_once_arg_spin (&the_once, vp_once_farg, NULL);
	__CPROVER_assert (vp_o.saw_done_acq || vp_o.stored_done, "C07: no call returns before the run of the once-function has completed");
	__CPROVER_assert (vp_o.runs == (vp_o.winner ? 1u : 0u), "C07: the function is run by the claimant only, exactly once");
	__CPROVER_assert (!(vp_o.first_load_valid && vp_o.first_load == 2u) || (vp_amu.lock_calls == 0 && vp_amu.cv_waits == 0 && vp_o.runs == 0),
			  "C07: a call on a once that is already done returns without blocking");
	__CPROVER_assert (!vp_amu.held[0], "C07: the internal lock is not held on return");
	VP_CANARY ();
}
/* spec-level lemma: G preserves 'at most one claimant ever' */
void h_once_lemma (void) {
	uint32_t w = vp_nondet_u32 () % 3, claimed_a = vp_nondet_bool (), claimed_b = vp_nondet_bool (), rest = vp_nondet_bool ();
	/* J: the word is non-zero iff exactly one thread has claimed it */
	__CPROVER_assume ((w != 0) == (claimed_a + claimed_b + rest == 1) && claimed_a + claimed_b + rest <= 1);
	if (vp_nondet_bool ()) {               /* thread b claims: G allows only CAS 0 -> 1 */
		__CPROVER_assume (w == 0);
		w = 1; claimed_b = 1;
	} else {                               /* thread b completes: G allows 1 -> 2 only for the claimant */
		__CPROVER_assume (w == 1 && claimed_b);
		w = 2;
	}
	__CPROVER_assert (claimed_a + claimed_b + rest == 1 && w != 0, "C07: at most one thread ever claims the once (exactly one runs the function)");
	VP_CANARY ();
}
