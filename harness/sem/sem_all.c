/* Wrapper TU: contracts, then the unmodified platform/linux/src/nsync_semaphore_futex.c
   (found through the include path), then the harnesses. */
#include "c_sem.h"
#include "headers.h"
/* The only textual intervention: the variadic libc entry point syscall() is renamed to a fixed-arity model of
   futex(2) (CBMC's contract instrumentation cannot pass its write set through a variadic call).  All seven
   arguments the code passes are forwarded unchanged. */
long vp_syscall_futex (long number, int *uaddr, int op, int val, const struct timespec *ts, int *uaddr2, int val3);
#define syscall(n, uaddr, op, val, ts, uaddr2, val3) vp_syscall_futex ((n), (uaddr), (op), (val), (ts), (uaddr2), (val3))
#include "nsync_semaphore_futex.c"
#undef syscall

static nsync_semaphore the_sem;
static void setup (int role) {
	vp_reg_clear ();
	vp_reg.sem_word = (nsync_atomic_uint32_ *) &the_sem;
	vp_sem_init_ghost (role);
	*(uint32_t *) &the_sem = vp_nondet_u32 ();
	__CPROVER_assume (*(uint32_t *) &the_sem < 0x7fffffffu);
}
static nsync_time any_time (void) { nsync_time t; t.tv_sec = vp_nondet_i64 (); t.tv_nsec = vp_nondet_i64 (); return t; }

void h_sem_p (void) { setup (0); nsync_mu_semaphore_p (&the_sem); VP_CANARY (); }
void h_sem_p_deadline (void) {
	int r;
	nsync_time d = any_time ();
	setup (0);
	vp_s.finite_deadline = !(d.tv_sec == nsync_time_no_deadline.tv_sec && d.tv_nsec == nsync_time_no_deadline.tv_nsec);
	r = nsync_mu_semaphore_p_with_deadline (&the_sem, d);
	(void) r;
	VP_CANARY ();
}
void h_sem_v (void) { setup (1); nsync_mu_semaphore_v (&the_sem); VP_CANARY (); }

/* C15 (c): count 0 and nobody posts, the clock has reached the deadline on entry  ==>  ETIMEDOUT in the first
   iteration (no loop contract here: the loop is unwound once and the unwinding assertion shows it is left).
   Every deadline value except nsync_time_no_deadline, including negative seconds. */
void h_sem_prompt (void) {
	nsync_time d = any_time ();
	struct timespec now;
	int r;
	setup (0);
	*(uint32_t *) &the_sem = 0;
	vp_s.no_posts = 1;
	vp_s.kernel_prompt = 1;
	vp_s.finite_deadline = 1;
	__CPROVER_assume (VP_NORM (d));
	__CPROVER_assume (!(d.tv_sec == nsync_time_no_deadline.tv_sec && d.tv_nsec == nsync_time_no_deadline.tv_nsec));
	clock_gettime (CLOCK_REALTIME, &now);
	__CPROVER_assume (VP_TIME_LE (d, now));          /* already expired */
	r = nsync_mu_semaphore_p_with_deadline (&the_sem, d);
	__CPROVER_assert (r == ETIMEDOUT, "C15: an already expired deadline produces the timeout result");
	__CPROVER_assert (vp_s.waits <= 1u, "C15: ... promptly (at most one kernel wait)");
	VP_CANARY ();
}
/* C15 (d) / C12: with the clock before the deadline throughout, never ETIMEDOUT */
