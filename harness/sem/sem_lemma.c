/* Spec-level lemma for the semaphore count (loop-free, full domain): with
   J: count == posts - takes (as mathematical integers, posts >= takes), every
   transition the guarantee allows (post: +1; take: -1 only from a positive
   count) preserves J; hence every successful wait is matched by a distinct
   earlier post ("never success without a post"). */
#include <stdint.h>
#include "vp_nondet.h"
void h_sem_lemma (void) {
	uint64_t posts = vp_nondet_u32 (), takes = vp_nondet_u32 ();
	uint32_t count = vp_nondet_u32 ();
	__CPROVER_assume (posts >= takes && posts - takes == count && count < 0x7fffffffu);
	if (vp_nondet_bool ()) {          /* G of a poster */
		count = count + 1u; posts++;
	} else {                          /* G of the waiter */
		__CPROVER_assume (count != 0);
		count = count - 1u; takes++;
	}
	__CPROVER_assert (posts >= takes && posts - takes == count, "C12: count == posts - successful waits is preserved by every allowed transition");
	__CPROVER_assert (takes <= posts, "C12: no more successful waits than posts");
	VP_CANARY ();
}
