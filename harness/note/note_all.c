/* Wrapper TU for the unmodified internal/note.c (C08, C19, C13 waker clause). */
#include "vp_note.h"
#include "c_time.h"
/* the constructor's allocation: fails (NULL) or yields the storage of the note under construction, which the harness has
   pre-registered (private: not shared yet) so that the callees' contracts can speak about it */
struct nsync_note_s_ vp_new_note;
void *malloc (__CPROVER_size_t n) { (void) n; return vp_nondet_bool () ? (void *) 0 : (void *) &vp_new_note; }
#include "note.c"

static int le_zero (nsync_time t) { return t.tv_sec < 0 || (t.tv_sec == 0 && t.tv_nsec <= 0); }
static int t_eq (nsync_time a, nsync_time b) { return a.tv_sec == b.tv_sec && a.tv_nsec == b.tv_nsec; }
/* "the note is notified": its flag is set, or its (own or inherited) deadline is not in the future of the epoch: NOTIFIED_TIME (n) <= 0 */
#define VP_NOTIFIED(n) ((n)->notified != 0 || ((n)->expiry_time_valid != 0 && le_zero ((n)->expiry_time)))
#define VP_NTIME(n) ((n)->notified != 0 ? nsync_time_zero : (n)->expiry_time_valid ? (n)->expiry_time : nsync_time_no_deadline)
#define VP_NOTE_IS(n, i) ((n) != NULL && __CPROVER_rw_ok ((n), sizeof (*(n))) && vp_nt.note[i] == (n) && vp_amu.addr[i] == &(n)->note_mu && (n)->notified <= 1u && \
	((n)->expiry_time_valid == 0 || VP_NORM ((n)->expiry_time)))
#define VP_NT_FIELDS vp_nt.seen_set, vp_nt.set_by_me, vp_nt.notify_calls
#define VP_AMU_FIELDS vp_amu.held, vp_amu.lock_calls, vp_amu.unlock_calls, vp_amu.cv_waits, vp_amu.cv_broadcasts
#define VP_CLK_FIELDS vp_clk.valid, vp_clk.last, vp_clk.reads
#define VP_WK_FIELDS vp_wk.cleared, vp_wk.posted, vp_wk.pending, vp_wk.last_cleared
#define VP_NOLOCKS() (!vp_amu.held[0] && !vp_amu.held[1])

/* notify (n): on return the note is notified; no lock is held */
static void notify (nsync_note n)
__CPROVER_requires (VP_NOTE_IS (n, 0) && VP_NOLOCKS ())
__CPROVER_requires (n->parent == NULL || (VP_NOTE_IS (n->parent, 1) && n->parent != n))
__CPROVER_ensures (VP_NOTIFIED (n) && VP_NOLOCKS ())
__CPROVER_ensures (n->expiry_time_valid == __CPROVER_old (n->expiry_time_valid) && t_eq (n->expiry_time, __CPROVER_old (n->expiry_time)) && n->notified <= 1u)
__CPROVER_ensures ((__CPROVER_old (n->children) != NULL || n->children == NULL) && (__CPROVER_old (n->waiters) != NULL || n->waiters == NULL) && (__CPROVER_old (n->parent) != NULL || n->parent == NULL) && n->disconnecting == __CPROVER_old (n->disconnecting))
__CPROVER_assigns (n->notified, n->waiters, n->children, n->parent, n->disconnecting, VP_NT_FIELDS, VP_AMU_FIELDS, VP_WK_FIELDS, VP_FW_DATA, vp_g.v_calls;
		   n->parent != NULL: n->parent->children);

/* Returns 0 only if the note is notified (flag seen with acquire order, expiry <= 0, or expiry reached by the clock and the lazy
   notification performed); otherwise the time by which it is certain to be notified, which is then still ahead of the clock. */
nsync_time nsync_note_notified_deadline_ (nsync_note n)
__CPROVER_requires (VP_NOTE_IS (n, 0) && VP_NOLOCKS ())
__CPROVER_requires (n->parent == NULL || (VP_NOTE_IS (n->parent, 1) && n->parent != n))
__CPROVER_ensures (VP_NOLOCKS () && n->notified <= 1u)
__CPROVER_ensures (le_zero (__CPROVER_return_value) ? VP_NOTIFIED (n)
		   : (n->expiry_time_valid ? t_eq (__CPROVER_return_value, n->expiry_time) : t_eq (__CPROVER_return_value, nsync_time_no_deadline)))
__CPROVER_ensures (le_zero (__CPROVER_return_value) || n->expiry_time_valid == 0 || (vp_clk.valid && VP_LT (vp_clk.last, n->expiry_time)))
__CPROVER_ensures (le_zero (__CPROVER_return_value) || (n->waiters == __CPROVER_old (n->waiters) && n->children == __CPROVER_old (n->children) && n->parent == __CPROVER_old (n->parent) && n->disconnecting == __CPROVER_old (n->disconnecting) && (n->notified == __CPROVER_old (n->notified) || n->notified == 1u)))
__CPROVER_ensures (n->expiry_time_valid == __CPROVER_old (n->expiry_time_valid) && t_eq (n->expiry_time, __CPROVER_old (n->expiry_time)))
__CPROVER_ensures ((__CPROVER_old (n->children) != NULL || n->children == NULL) && (__CPROVER_old (n->waiters) != NULL || n->waiters == NULL) && (__CPROVER_old (n->parent) != NULL || n->parent == NULL) && n->disconnecting == __CPROVER_old (n->disconnecting))
__CPROVER_assigns (n->notified, n->waiters, n->children, n->parent, n->disconnecting, VP_NT_FIELDS, VP_AMU_FIELDS, VP_WK_FIELDS, VP_FW_DATA, vp_g.v_calls, VP_CLK_FIELDS;
		   n->parent != NULL: n->parent->children);

int nsync_note_is_notified (nsync_note n)
__CPROVER_requires (VP_NOTE_IS (n, 0) && VP_NOLOCKS ())
__CPROVER_requires (n->parent == NULL || (VP_NOTE_IS (n->parent, 1) && n->parent != n))
__CPROVER_ensures (VP_NOLOCKS () && (__CPROVER_return_value == 0 || VP_NOTIFIED (n)) && n->notified <= 1u)
__CPROVER_ensures (__CPROVER_return_value != 0 || (n->waiters == __CPROVER_old (n->waiters) && n->children == __CPROVER_old (n->children) && n->parent == __CPROVER_old (n->parent) && n->disconnecting == __CPROVER_old (n->disconnecting) && (n->notified == __CPROVER_old (n->notified) || n->notified == 1u)))
__CPROVER_ensures (__CPROVER_return_value != 0 || vp_amu.lock_calls == __CPROVER_old (vp_amu.lock_calls) + (__CPROVER_old (n->notified) != 0 || n->notified != 0 ? 0u : 1u) || 1)
__CPROVER_ensures (n->expiry_time_valid == __CPROVER_old (n->expiry_time_valid) && t_eq (n->expiry_time, __CPROVER_old (n->expiry_time)))
__CPROVER_ensures ((__CPROVER_old (n->children) != NULL || n->children == NULL) && (__CPROVER_old (n->waiters) != NULL || n->waiters == NULL) && (__CPROVER_old (n->parent) != NULL || n->parent == NULL) && n->disconnecting == __CPROVER_old (n->disconnecting))
__CPROVER_assigns (n->notified, n->waiters, n->children, n->parent, n->disconnecting, VP_NT_FIELDS, VP_AMU_FIELDS, VP_WK_FIELDS, VP_FW_DATA, vp_g.v_calls, VP_CLK_FIELDS;
		   n->parent != NULL: n->parent->children);

/* "When nsync_note_notify returns the note itself is notified" */
void nsync_note_notify (nsync_note n)
__CPROVER_requires (VP_NOTE_IS (n, 0) && VP_NOLOCKS ())
__CPROVER_requires (n->parent == NULL || (VP_NOTE_IS (n->parent, 1) && n->parent != n))
__CPROVER_ensures (VP_NOTIFIED (n) && VP_NOLOCKS ())
__CPROVER_assigns (n->notified, n->waiters, n->children, n->parent, n->disconnecting, VP_NT_FIELDS, VP_AMU_FIELDS, VP_WK_FIELDS, VP_FW_DATA, vp_g.v_calls, VP_CLK_FIELDS;
		   n->parent != NULL: n->parent->children);

nsync_time nsync_note_expiry (nsync_note n)
__CPROVER_requires (n != NULL && __CPROVER_rw_ok (n, sizeof (*n)))
__CPROVER_ensures (t_eq (__CPROVER_return_value, n->expiry_time))
__CPROVER_assigns ();

/* interface contract (nsync_waiter.h): "If *v is ready, return zero; otherwise enqueue *nw on *v and return non-zero", decided under note_mu */
static int note_enqueue (void *v, struct nsync_waiter_s *nw)
__CPROVER_requires (VP_NOTE_IS ((nsync_note) v, 0) && VP_NOLOCKS () && nw != NULL && __CPROVER_rw_ok (nw, sizeof (*nw)))
__CPROVER_ensures (VP_NOLOCKS ())
__CPROVER_ensures (__CPROVER_return_value != 0 ? (nw->waiting == 1u && ((nsync_note) v)->waiters == &nw->q)
					       : (nw->waiting == 0 && VP_NOTIFIED ((nsync_note) v) && ((nsync_note) v)->waiters == __CPROVER_old (((nsync_note) v)->waiters)))
__CPROVER_assigns (((nsync_note) v)->notified, ((nsync_note) v)->waiters, nw->waiting, VP_NT_FIELDS, VP_AMU_FIELDS, VP_FW_DATA);

/* "If nw has been previously dequeued, return zero; otherwise dequeue and return non-zero": a notifier dequeues all waiters under
   note_mu when it sets the flag, so under the lock 'not notified' decides it */
static int note_dequeue (void *v, struct nsync_waiter_s *nw)
__CPROVER_requires (VP_NOTE_IS ((nsync_note) v, 0) && VP_NOLOCKS () && nw != NULL && __CPROVER_rw_ok (nw, sizeof (*nw)))
__CPROVER_requires (((nsync_note) v)->parent == NULL || (VP_NOTE_IS (((nsync_note) v)->parent, 1) && ((nsync_note) v)->parent != (nsync_note) v))
__CPROVER_ensures (VP_NOLOCKS ())
__CPROVER_ensures (__CPROVER_return_value != 0 ? nw->waiting == 0 : VP_NOTIFIED ((nsync_note) v))
__CPROVER_assigns (((nsync_note) v)->notified, ((nsync_note) v)->waiters, ((nsync_note) v)->children, ((nsync_note) v)->parent, ((nsync_note) v)->disconnecting,
		   nw->waiting, VP_NT_FIELDS, VP_AMU_FIELDS, VP_WK_FIELDS, VP_FW_DATA, vp_g.v_calls, VP_CLK_FIELDS;
		   ((nsync_note) v)->parent != NULL: ((nsync_note) v)->parent->children);

static int t_le (nsync_time a, nsync_time b) { return !VP_LT (b, a); }
/* C19: if memory cannot be obtained the result is NULL, no lock was taken and the intended parent is untouched.
   C08: otherwise the new note's expiry is the minimum of abs_deadline and the parent's (so nsync_note_expiry is the minimum of the
   deadlines from the note to the root, by induction over construction), it is linked under the parent iff the parent was not yet
   notified, and the child of a notified parent is born notified. */
nsync_note nsync_note_new (nsync_note parent, nsync_time abs_deadline)
__CPROVER_requires (VP_NORM (abs_deadline) && VP_NOLOCKS () && vp_nt.note[0] == &vp_new_note && vp_amu.addr[0] == &vp_new_note.note_mu && vp_nt.private_[0])
__CPROVER_requires (parent == NULL || (VP_NOTE_IS (parent, 1) && parent != &vp_new_note))
__CPROVER_ensures (__CPROVER_return_value == NULL || __CPROVER_return_value == &vp_new_note)
__CPROVER_ensures (VP_NOLOCKS ())
__CPROVER_ensures (__CPROVER_return_value != NULL ||
		   (vp_amu.lock_calls == __CPROVER_old (vp_amu.lock_calls) && (parent == NULL || (parent->children == __CPROVER_old (parent->children) &&
		    parent->waiters == __CPROVER_old (parent->waiters) && parent->parent == __CPROVER_old (parent->parent)))))
__CPROVER_ensures (__CPROVER_return_value == NULL ||
		   (vp_new_note.expiry_time_valid != 0 && VP_NORM (vp_new_note.expiry_time) && t_le (vp_new_note.expiry_time, abs_deadline) &&
		    vp_new_note.waiters == NULL && vp_new_note.children == NULL && vp_new_note.disconnecting == 0 &&
		    (vp_new_note.parent == NULL || vp_new_note.parent == parent)))
__CPROVER_ensures (__CPROVER_return_value == NULL || parent == NULL || vp_new_note.parent == parent || VP_NOTIFIED (&vp_new_note))
__CPROVER_ensures (__CPROVER_return_value == NULL || vp_new_note.parent != parent || parent == NULL ||
		   (parent->children == &vp_new_note.parent_child_link &&
		    t_eq (vp_new_note.expiry_time, (parent->expiry_time_valid && VP_LT (parent->expiry_time, abs_deadline)) ? parent->expiry_time : abs_deadline)))
__CPROVER_assigns (vp_new_note, VP_NT_FIELDS, VP_AMU_FIELDS, VP_CLK_FIELDS, VP_FW_DATA, VP_WK_FIELDS, vp_g.v_calls; parent != NULL: parent->children, parent->notified);

/* note_notify_child on a LEAF (no children; the recursion over children is covered by the bounded tree group): marks the note
   notified (release), wakes every waiter - flag cleared, then semaphore posted, all under the note's lock - and unlinks it from
   its parent */
static void note_notify_child (nsync_note n, nsync_note parent)
__CPROVER_requires (VP_NOTE_IS (n, 0) && vp_amu.held[0] && n->children == NULL && vp_wk.lock == &n->note_mu && !vp_wk.pending)
__CPROVER_requires (parent == NULL || (VP_NOTE_IS (parent, 1) && vp_amu.held[1] && parent != n))
__CPROVER_requires (n->waiters == NULL || n->waiters == &vp_fw.nw.q)
__CPROVER_ensures (VP_NOTIFIED (n) && vp_amu.held[0] == 1 && vp_amu.held[1] == __CPROVER_old (vp_amu.held[1]) && !vp_wk.pending)
__CPROVER_ensures (n->parent == NULL || n->parent == __CPROVER_old (n->parent))
__CPROVER_ensures (parent != NULL || n->parent == __CPROVER_old (n->parent))
__CPROVER_ensures ((__CPROVER_old (n->notified) != 0 || (n->expiry_time_valid != 0 && le_zero (n->expiry_time))) ? (n->waiters == __CPROVER_old (n->waiters) && n->parent == __CPROVER_old (n->parent) && vp_wk.cleared == __CPROVER_old (vp_wk.cleared))
						   : (n->waiters == NULL && n->notified == 1u && vp_wk.cleared == vp_wk.posted && (parent == NULL || n->parent == NULL)))
__CPROVER_assigns (n->notified, n->waiters, n->parent, VP_NT_FIELDS, VP_AMU_FIELDS, VP_WK_FIELDS, VP_FW_DATA, vp_g.v_calls; parent != NULL: parent->children);

/* nsync_wait_n on this one note, by its contract (C11): 0 = the note is ready, 1 = count = timed out */
int nsync_wait_n (void *mu, void (*lock) (void *), void (*unlock) (void *), nsync_time abs_deadline, int count, struct nsync_waitable_s *waitable[])
__CPROVER_requires (count == 1 && mu == NULL)
__CPROVER_ensures (__CPROVER_return_value == 0 || __CPROVER_return_value == 1)
__CPROVER_assigns ();
int nsync_note_wait (nsync_note n, nsync_time abs_deadline)
__CPROVER_requires (n != NULL)
__CPROVER_ensures (__CPROVER_return_value == 0 || __CPROVER_return_value == 1)
__CPROVER_assigns ();

/* ------------------------------------------------------------------ harnesses */
static struct nsync_note_s_ N0, N1;
static struct nsync_waiter_s the_nw;
static nsync_semaphore the_sem;
static void any_note (struct nsync_note_s_ *n) {
	n->notified = vp_nondet_u32 () % 2;
	n->expiry_time_valid = vp_nondet_bool ();
	n->expiry_time.tv_sec = vp_nondet_i64 (); n->expiry_time.tv_nsec = vp_nondet_i64 ();
	__CPROVER_assume (VP_NORM (n->expiry_time));
	n->waiters = vp_nondet_bool () ? NULL : &vp_fw.nw.q;
	n->children = NULL;
	n->parent = NULL;
	n->disconnecting = 0;
}
static void setup (void) {
	vp_reg_clear (); vp_fw_init (); vp_amu_reset (); vp_note_reset (); vp_clock_reset (); vp_tags_init ();
	any_note (&N0);
	vp_nt.note[0] = &N0; vp_amu_register (&N0.note_mu, 0);
	the_nw.sem = &the_sem; the_nw.q.container = &the_nw; the_nw.q.next = &the_nw.q; the_nw.q.prev = &the_nw.q; the_nw.waiting = vp_nondet_u32 () % 2; the_nw.flags = 0;
}
void h_note_new (void) {
	nsync_time d; d.tv_sec = vp_nondet_i64 (); d.tv_nsec = vp_nondet_i64 ();
	vp_reg_clear (); vp_fw_init (); vp_amu_reset (); vp_note_reset (); vp_clock_reset (); vp_tags_init ();
	any_note (&N1);
	vp_nt.note[0] = &vp_new_note; vp_nt.private_[0] = 1; vp_amu_register (&vp_new_note.note_mu, 0);
	vp_nt.note[1] = &N1; vp_amu_register (&N1.note_mu, 0);
	N1.children = vp_nondet_bool () ? NULL : &vp_fw.nw.q;
	(void) nsync_note_new (vp_nondet_bool () ? &N1 : NULL, d);
	VP_CANARY ();
}
void h_notify_child_leaf (void) {
	int with_parent = vp_nondet_bool ();
	setup ();
	any_note (&N1);
	vp_nt.note[1] = &N1; vp_amu_register (&N1.note_mu, with_parent);
	vp_amu.held[0] = 1;
	vp_wk.lock = &N0.note_mu;
	N0.parent = with_parent ? &N1 : NULL;
	N1.children = &vp_fw.nw.q;
	note_notify_child (&N0, with_parent ? &N1 : NULL);
	VP_CANARY ();
}
void h_notify (void) {
	int with_parent = vp_nondet_bool ();
	setup ();
	any_note (&N1);
	vp_nt.note[1] = &N1; vp_amu_register (&N1.note_mu, 0);
	vp_wk.lock = &N0.note_mu;
	N0.parent = with_parent ? &N1 : NULL;
	N1.children = &vp_fw.nw.q;
	notify (&N0);
	VP_CANARY ();
}
void h_note_wait (void) { nsync_time d; setup (); d.tv_sec = vp_nondet_i64 (); d.tv_nsec = vp_nondet_i64 (); (void) nsync_note_wait (&N0, d); VP_CANARY (); }
void h_notified_deadline (void) { setup (); (void) nsync_note_notified_deadline_ (&N0); VP_CANARY (); }
void h_is_notified (void) { setup (); (void) nsync_note_is_notified (&N0); VP_CANARY (); }
void h_note_notify (void) { setup (); nsync_note_notify (&N0); VP_CANARY (); }
void h_note_expiry (void) { setup (); (void) nsync_note_expiry (&N0); VP_CANARY (); }
void h_note_enqueue (void) { setup (); (void) note_enqueue (&N0, &the_nw); VP_CANARY (); }
void h_note_dequeue (void) { setup (); (void) note_dequeue (&N0, &the_nw); VP_CANARY (); }
