/* C08 bounded tree group: the REAL note.c + REAL dll.c run sequentially (no other thread acts during a call) on a tree
   R -> {C1 -> {G}, C2} built through the real nsync_note_new, with symbolic deadlines; the notes' mutexes are the abstract
   mutex (lock discipline asserted), waiters are registered through the real note_enqueue. */
#include "vp_note.h"
#include "c_time.h"
static struct nsync_note_s_ pool[6];
static int pool_next;
void *malloc (__CPROVER_size_t n) { (void) n; __CPROVER_assert (pool_next < 6, "VP-AUX: note pool exhausted"); return &pool[pool_next++]; }
void free (void *p) { (void) p; }
#include "note.c"

static struct nsync_waiter_s nwG, nwG2, nwC2;     /* two threads wait on G, one on C2 */
static nsync_semaphore semG, semG2, semC2;
static int postedG, postedG2, postedC2;
void nsync_mu_semaphore_init (nsync_semaphore *s) { (void) s; }
void nsync_mu_semaphore_p (nsync_semaphore *s) { (void) s; }
int nsync_mu_semaphore_p_with_deadline (nsync_semaphore *s, nsync_time d) { (void) s; (void) d; return 0; }
void nsync_mu_semaphore_v (nsync_semaphore *s) {
	if (s == &semG) { __CPROVER_assert (nwG.waiting == 0, "C08: a waiter is posted only after its flag was cleared"); postedG++; }
	else if (s == &semG2) { __CPROVER_assert (nwG2.waiting == 0, "C08: a waiter is posted only after its flag was cleared"); postedG2++; }
	else if (s == &semC2) { __CPROVER_assert (nwC2.waiting == 0, "C08: a waiter is posted only after its flag was cleared"); postedC2++; }
	else __CPROVER_assert (0, "C08: only waiters of notified notes are posted");
}
static int le_zero (nsync_time t) { return t.tv_sec < 0 || (t.tv_sec == 0 && t.tv_nsec <= 0); }
static int t_eq (nsync_time a, nsync_time b) { return a.tv_sec == b.tv_sec && a.tv_nsec == b.tv_nsec; }
static nsync_time t_min (nsync_time a, nsync_time b) { return VP_LT (b, a) ? b : a; }
/* deadlines are concrete (so that every list pointer stays concrete); the scenario is run for VP_NDL assignments covering the
   orderings parent-earlier / parent-later / equal / no deadline */
#define VP_NDL 5
static int dl_case;
static nsync_time mk (long s) { nsync_time t; if (s < 0) return nsync_time_no_deadline; t.tv_sec = s; t.tv_nsec = 0; return t; }
static const long dl_table[VP_NDL][4] = { {5000, 3000, 7000, 2000}, {2000, 3000, 1500, 9000}, {4000, 4000, 4000, 4000}, {-1, -1, 6000, 5000}, {8000, -1, -1, -1} };
static nsync_time future_time (void) { return mk (12345); }
static void init_nw (struct nsync_waiter_s *nw, nsync_semaphore *s) {
	nw->tag = NSYNC_WAITER_TAG; nw->sem = s; nsync_dll_init_ (&nw->q, nw); nw->waiting = 0; nw->flags = 0;
}
static nsync_note R, C1, C2, G;
static nsync_time dR, dC1, dC2, dG;
static void build (void) {
	int i;
	vp_reg_clear (); vp_amu_reset (); vp_note_reset (); vp_clock_reset (); vp_tags_init ();
	pool_next = 0; postedG = 0; postedG2 = 0; postedC2 = 0;
	for (i = 0; i < 4; i++) { vp_amu_register (&pool[i].note_mu, 0); vp_nt.note[i] = &pool[i]; }
	dR = mk (dl_table[dl_case][0]); dC1 = mk (dl_table[dl_case][1]); dC2 = mk (dl_table[dl_case][2]); dG = mk (dl_table[dl_case][3]);
	R = nsync_note_new (NULL, dR);
	C1 = nsync_note_new (R, dC1);
	C2 = nsync_note_new (R, dC2);
	G = nsync_note_new (C1, dG);
	/* "nsync_note_expiry is the minimum of the deadlines from the note to the root" */
	__CPROVER_assert (t_eq (nsync_note_expiry (R), dR), "C08: expiry of a root is its own deadline");
	__CPROVER_assert (t_eq (nsync_note_expiry (C1), t_min (dC1, dR)) && t_eq (nsync_note_expiry (C2), t_min (dC2, dR)), "C08: expiry is the minimum along the path (depth 2)");
	__CPROVER_assert (t_eq (nsync_note_expiry (G), t_min (dG, t_min (dC1, dR))), "C08: expiry is the minimum along the path (depth 3)");
	__CPROVER_assert (C1->parent == R && C2->parent == R && G->parent == C1 && R->parent == NULL, "C08: a child of an un-notified parent is linked under it");
	init_nw (&nwG, &semG); init_nw (&nwG2, &semG2); init_nw (&nwC2, &semC2);
	__CPROVER_assert (note_enqueue (G, &nwG) != 0 && note_enqueue (G, &nwG2) != 0 && note_enqueue (C2, &nwC2) != 0, "C08: an un-notified note accepts waiters");
}
static int flag (nsync_note n) { return n->notified != 0; }

/* notify a middle node: it and its descendants are notified and their waiters released; ancestors and siblings are unaffected */
static void one_tree_notify_middle (void) {
	build ();
	nsync_note_notify (C1);
	__CPROVER_assert (flag (C1) && flag (G), "C08: after nsync_note_notify returns the note and all its descendants are notified");
	__CPROVER_assert (nwG.waiting == 0 && postedG == 1 && nwG2.waiting == 0 && postedG2 == 1 && G->waiters == NULL, "C08: every thread waiting on a descendant is released");
	__CPROVER_assert (!flag (R) && !flag (C2) && nwC2.waiting == 1 && postedC2 == 0 && C2->waiters == &nwC2.q, "C08: ancestors and siblings are unaffected");
	__CPROVER_assert (C1->parent == NULL && G->parent == NULL && C1->children == NULL && R->children == &C2->parent_child_link && C2->parent == R,
			  "C08: notified notes are disconnected from the tree, the rest of the tree is intact");
	__CPROVER_assert (!vp_amu.held[0] && !vp_amu.held[1] && !vp_amu.held[2] && !vp_amu.held[3], "C08: no note lock is held on return");
	/* one-way: notifying again changes nothing */
	nsync_note_notify (C1);
	__CPROVER_assert (flag (C1) && flag (G) && !flag (R) && !flag (C2) && postedG == 1 && postedG2 == 1, "C08: notification is one-way and idempotent");
}
/* notify the root: everything below is notified */
static void one_tree_notify_root (void) {
	build ();
	nsync_note_notify (R);
	__CPROVER_assert (flag (R) && flag (C1) && flag (C2) && flag (G), "C08: notifying an ancestor notifies every descendant");
	__CPROVER_assert (nwG.waiting == 0 && postedG == 1 && nwG2.waiting == 0 && postedG2 == 1 && nwC2.waiting == 0 && postedC2 == 1, "C08: every waiter on a descendant is released");
	__CPROVER_assert (nsync_note_is_notified (G) && nsync_note_is_notified (C2), "C08: descendants are observed notified");
	__CPROVER_assert (!vp_amu.held[0] && !vp_amu.held[1] && !vp_amu.held[2] && !vp_amu.held[3], "C08: no note lock is held on return");
}
/* free a middle node: its children are adopted by its parent, so a later notification of that ancestor still reaches them (C09, sequential clause) */
static void one_tree_free_middle (void) {
	build ();
	nsync_note_free (C1);
	__CPROVER_assert (G->parent == R && !flag (G) && !flag (R) && !flag (C2), "C08/C09: the children of a freed note are adopted by its parent; nobody is notified by a free");
	__CPROVER_assert (nwG.waiting == 1 && postedG == 0 && nwG2.waiting == 1 && postedG2 == 0, "C08: freeing a note releases no waiter of its children");
	nsync_note_notify (R);
	__CPROVER_assert (flag (G) && flag (C2) && nwG.waiting == 0 && postedG == 1 && nwG2.waiting == 0 && postedG2 == 1, "C08/C09: a later notification of the adopting ancestor reaches the adopted child");
	__CPROVER_assert (!vp_amu.held[0] && !vp_amu.held[1] && !vp_amu.held[2] && !vp_amu.held[3], "C08: no note lock is held on return");
}
/* a child of a notified parent is born notified and is not linked */
static void one_tree_born_notified (void) {
	nsync_note n;
	build ();
	nsync_note_notify (C2);
	vp_amu.addr[0] = &pool[4].note_mu; vp_amu.held[0] = 0;   /* the abstract mutex table has four slots: reuse the root's for the new note */
	n = nsync_note_new (C2, future_time ());
	__CPROVER_assert (n != NULL && nsync_note_is_notified (n) && n->parent == NULL, "C08: a note created under a notified parent is notified from birth");
}

#define VP_ALL_DL(f) do { for (dl_case = 0; dl_case < VP_NDL; dl_case++) f (); } while (0)
void h_tree_notify_middle (void) { VP_ALL_DL (one_tree_notify_middle); VP_CANARY (); }
void h_tree_notify_root (void) { VP_ALL_DL (one_tree_notify_root); VP_CANARY (); }
void h_tree_free_middle (void) { VP_ALL_DL (one_tree_free_middle); VP_CANARY (); }
void h_tree_born_notified (void) { VP_ALL_DL (one_tree_born_notified); VP_CANARY (); }
