/* C09 (bounded): the REAL internal/note.c + REAL internal/dll.c, one thread A under proof and an ENVIRONMENT of other
   threads.  A's call runs sequentially; at every point where A calls a mutex operation (lock, trylock, unlock,
   nsync_mu_wait) other threads may run COMPLETE calls of the real library, taken from a small menu, each at most once:

       notify the same note n (a second notifier, or a second poller of an expired note)
       notify n's parent P
       free P  (by P's owner: no other thread uses P itself - A and the second notifier were given n, not P)
       create a new child of P

   An environment call that would have to block on a lock A holds, or on a condition that A has not yet made true, is
   not enabled at that point (the path is cut): so every explored interleaving is a real one, though not every
   real interleaving is explored (bounded).  Memory comes from cbmc's malloc / free: an access to a note after its
   nsync_note_free has returned is a dereference of a deallocated object (pointer checks), and the mutex stubs assert it
   explicitly for the lock word, which the abstract mutex never dereferences.

   The note mutexes are abstract (owner ghost per mutex); self-deadlock and lock-order violations are asserted. */
#include "nsync_cpp.h"
#include "platform.h"
#include "compiler.h"
#include "cputype.h"
#include "nsync.h"
#include "dll.h"
#include "sem.h"
#include "wait_internal.h"
#include "common.h"
#include "atomic.h"
#include "vp_nondet.h"
#include "vp_native.h"
#include "c_time.h"
#include <stdlib.h>
#include <string.h>

#define T_A 1
#define T_ENV 2
#define NM 6
static int cur = T_A;                      /* the thread executing */
static const nsync_mu *mu_addr[NM];         /* mutexes seen so far */
static int mu_owner[NM];                    /* 0 free, T_A, T_ENV */
static int in_env;
static int a_ops, env_site, env_site2, env_ops[2], trylock_fails;   /* the concrete environment schedule of the scenario, see env_step */
static nsync_note P, N, GP, C;              /* grandparent (optional), parent, the note under test, its child (optional) */
static int p_freed;

static int mu_idx (const nsync_mu *mu) {
	int i, r = -1;
	for (i = 0; i < NM; i++) { if (mu_addr[i] == mu) r = i; }
	if (r < 0) { for (i = 0; i < NM; i++) { if (r < 0 && mu_addr[i] == NULL) { mu_addr[i] = mu; mu_owner[i] = 0; r = i; } } }
	__CPROVER_assert (r >= 0, "VP-AUX: mutex table full");
	return r < 0 ? 0 : r;
}
static void env_step (void);
#define TOUCH(mu) __CPROVER_assert (__CPROVER_rw_ok ((mu), sizeof (*(mu))), "C09: no call touches a note (here: its lock) after that note's nsync_note_free has returned")

/* the documented locking order is "parent before child": a thread that BLOCKS on a note's lock while holding the lock of one of that
   note's children can deadlock with a thread notifying or freeing the parent (which holds the parent and locks each child in turn) */
static int n_freed;
static int holds_child_of (const nsync_mu *mu) {
	nsync_note y[4]; int alive[4]; int k, r = 0;
	y[0] = GP; y[1] = P; y[2] = N; y[3] = C;
	alive[0] = GP != NULL; alive[1] = P != NULL && !p_freed; alive[2] = N != NULL && !n_freed; alive[3] = C != NULL;
	for (k = 0; k < 4; k++) {
		if (alive[k] && y[k]->parent != NULL && &y[k]->parent->note_mu == mu && mu_owner[mu_idx (&y[k]->note_mu)] == cur) r = 1;
	}
	return r;
}
void nsync_mu_lock (nsync_mu *mu) {
	int i;
	if (cur == T_A) env_step ();
	TOUCH (mu);
	if (cur == T_A) __CPROVER_assert (!holds_child_of (mu), "C09: no call blocks on a note's lock while holding the lock of one of its children (locking order parent before child: no deadlock with a notifier of the parent)");
	i = mu_idx (mu);
	__CPROVER_assert (mu_owner[i] != cur, "C09: no call locks a note it already holds (self-deadlock)");
	if (mu_owner[i] != 0) __CPROVER_assume (0);   /* held by the other side: this thread would block here; the interleaving continues elsewhere */
	mu_owner[i] = cur;
}
int nsync_mu_trylock (nsync_mu *mu) {
	int i;
	if (cur == T_A) env_step ();
	TOUCH (mu);
	i = mu_idx (mu);
	__CPROVER_assert (mu_owner[i] != cur, "C09: no call tries to lock a note it already holds");
	if (mu_owner[i] != 0) return 0;
	if (cur == T_A && trylock_fails) { trylock_fails = 0; return 0; }   /* another thread held it for a moment (a poll, a new child): A's first trylock fails */
	mu_owner[i] = cur;
	return 1;
}
void nsync_mu_unlock (nsync_mu *mu) {
	int i;
	TOUCH (mu);
	i = mu_idx (mu);
	__CPROVER_assert (mu_owner[i] == cur, "C09: a note's lock is released only by its holder");
	mu_owner[i] = 0;
	if (cur == T_A) env_step ();
}
void nsync_mu_wait (nsync_mu *mu, int (*condition) (const void *), const void *arg, int (*eq) (const void *, const void *)) {
	int i;
	(void) eq;
	TOUCH (mu);
	i = mu_idx (mu);
	__CPROVER_assert (mu_owner[i] == cur, "C09: nsync_mu_wait is called with the note's lock held");
	if (!(*condition) (arg)) {
		if (cur == T_ENV) __CPROVER_assume (0);    /* the environment call would block: not enabled here */
		mu_owner[i] = 0;                          /* A waits: the lock is released, other threads run */
		env_step ();
		__CPROVER_assume (mu_owner[i] == 0 && (*condition) (arg));   /* A continues only once the condition holds (else it is still waiting: path cut) */
		mu_owner[i] = cur;
	}
}
void nsync_mu_semaphore_v (nsync_semaphore *s) { (void) s; }
void nsync_mu_semaphore_p (nsync_semaphore *s) { (void) s; }
int nsync_mu_semaphore_p_with_deadline (nsync_semaphore *s, nsync_time d) { (void) s; (void) d; return 0; }
void nsync_mu_semaphore_init (nsync_semaphore *s) { (void) s; }
int nsync_wait_n (void *mu, void (*lock) (void *), void (*unlock) (void *), nsync_time abs_deadline, int count, struct nsync_waitable_s *waitable[]) {
	(void) mu; (void) lock; (void) unlock; (void) abs_deadline; (void) count; (void) waitable; return 0;
}

#include "note.c"

/* other threads: complete calls of the real library.  The schedule of a scenario is CONCRETE (so that cbmc executes each scenario on concrete
   pointers): the environment acts at A's env_site-th mutex operation, running env_ops[0] then env_ops[1]; all combinations are enumerated by
   constant-bounded loops in the harness.  op: 0 nothing, 1 notify n, 2 free P, 3 notify P, 4 new child of P */
static int a_kind;      /* what thread A does: 0 nsync_note_notify (n), 1 nsync_note_free (n), 2 nsync_note_new (n, ...) */
static void env_step (void) {
	int k;
	int here;
	if (in_env) return;
	here = a_ops++;
	if (here != env_site && here != env_site2) return;
	in_env = 1; cur = T_ENV;
	for (k = 0; k < 2; k++) {
		int op = env_ops[k];
		if (here != (k == 0 ? env_site : env_site2)) continue;     /* first operation at env_site, second at env_site2 (>= env_site) */
		if (a_kind == 1) {
			/* A frees n: by the API rule no other thread uses n itself; they may use its relatives */
			if (op == 1 && !p_freed) nsync_note_notify (P);
			else if (op == 2 && !p_freed) { p_freed = 1; nsync_note_free (P); }
			else if (op == 3 && C != NULL) nsync_note_notify (C);
			else if (op == 4 && !p_freed) { nsync_note x = nsync_note_new (P, nsync_time_no_deadline); (void) x; }
		} else {
			if (op == 1) {
				nsync_note_notify (N);
				/* this second notifier is a caller too: it may have had to wait for A (a path on which it blocks is cut), but if it returns, n is notified */
				__CPROVER_assert (N->notified != 0, "C08: when nsync_note_notify returns the note itself is notified (also for a second, concurrent notifier)");
			}
			else if (op == 2 && !p_freed) { p_freed = 1; nsync_note_free (P); }
			else if (op == 3 && !p_freed) nsync_note_notify (P);
			else if (op == 4 && !p_freed) { nsync_note x = nsync_note_new (P, nsync_time_no_deadline); (void) x; }
		}
	}
	cur = T_A; in_env = 0;
}

static void build (int with_gp, int with_child) {
	int i;
	vp_reg_clear ();
	for (i = 0; i < NM; i++) { mu_addr[i] = NULL; mu_owner[i] = 0; }
	in_env = 1; p_freed = 0; n_freed = 0; cur = T_A; a_ops = 0;
	GP = with_gp ? nsync_note_new (NULL, nsync_time_no_deadline) : NULL;
	P = nsync_note_new (GP, nsync_time_no_deadline);
	N = nsync_note_new (P, nsync_time_no_deadline);
	C = with_child ? nsync_note_new (N, nsync_time_no_deadline) : NULL;
	__CPROVER_assume (P != NULL && N != NULL && (!with_gp || GP != NULL) && (!with_child || C != NULL));
	in_env = 0;
}
static void finish (void) {
	int i;
	for (i = 0; i < NM; i++) __CPROVER_assert (mu_owner[i] != T_A, "C09: the call returns holding no note lock");
	__CPROVER_assert (N->notified != 0, "C08: when nsync_note_notify returns the note is notified");
	__CPROVER_assert (N->parent == NULL && N->disconnecting == 0, "C09: a notified note is disconnected from its parent and nobody is left disconnecting it");
	__CPROVER_assert (C == NULL || C->notified != 0, "C08: descendants of a notified note are notified");
}
#ifndef VP_SITE
#define VP_SITE 3
#endif
#ifndef VP_SHAPE
#define VP_SHAPE 0
#endif
#ifndef VP_TF
#define VP_TF 1
#endif
#ifndef VP_AKIND
#define VP_AKIND 0
#endif
/* One group per (what A does, tree shape, does A's first trylock fail, scheduling point); the environment's operations are enumerated here. */
void h_conc (void) {
	int o1, o2, i;
#ifndef VP_SITE2_MAX
#define VP_SITE2_MAX VP_SITE        /* quick tier: both environment calls at the same scheduling point; thorough: the second one at any later point too */
#endif
	int s2;
	for (s2 = VP_SITE; s2 <= VP_SITE2_MAX; s2++) for (o1 = 0; o1 < 5; o1++) for (o2 = 0; o2 < 5; o2++) {
		if (o1 == 0 ? o2 != 0 : o2 == o1) continue;     /* (0,0): A runs alone - always completes, keeps the end of the scenario reachable */
		if (s2 != VP_SITE && (o1 == 0 || o2 == 0)) continue;
		if (vp_nondet_bool ()) {          /* each scenario on its own path: a cut path (a thread that would block) ends that scenario only */
			env_ops[0] = o1; env_ops[1] = o2; trylock_fails = VP_TF; env_site = VP_SITE; env_site2 = s2; a_kind = VP_AKIND;
			build (VP_SHAPE & 1, (VP_SHAPE >> 1) & 1);
			if (a_kind == 0) {
				nsync_note_notify (N);
				finish ();
			} else if (a_kind == 1) {
				nsync_note_free (N);
				n_freed = 1;
				for (i = 0; i < NM; i++) __CPROVER_assert (mu_owner[i] != T_A, "C09: the call returns holding no note lock");
				__CPROVER_assert (C == NULL || C->notified != 0 || C->parent == (p_freed ? GP : P),
						  "C09: the children of a freed note are adopted by its parent (or were disconnected by their own notification)");
			} else {
				nsync_note x = nsync_note_new (N, nsync_time_no_deadline);
				for (i = 0; i < NM; i++) __CPROVER_assert (mu_owner[i] != T_A, "C09: the call returns holding no note lock");
				__CPROVER_assert (x != NULL && ((x->parent == N && N->notified == 0) || (x->parent == NULL && x->notified != 0) || (x->parent == NULL && N->notified != 0)),
						  "C08/C09: a new child is either linked under its un-notified parent or born notified");
			}
			VP_CANARY ();
			return;
		}
	}
	VP_CANARY ();
}
