/* C16, second clause (buffer).  Wrapper TU for the unmodified internal/debug.c. */
#include "c_mu.h"
#include "debug.c"

/* representation invariant of struct emit_buf:
   0 <= pos <= len; once overflow is set pos == len and the last min(len,4) bytes are the tail of "...\0" */
#define VP_TAIL_OK(b) ( \
	((b)->len < 1 || (b)->start[(b)->len - 1] == 0) && \
	((b)->len < 2 || (b)->start[(b)->len - 2] == '.') && \
	((b)->len < 3 || (b)->start[(b)->len - 3] == '.') && \
	((b)->len < 4 || (b)->start[(b)->len - 4] == '.'))
#define VP_EB_INV(b) ((b)->len >= 0 && (b)->pos >= 0 && (b)->pos <= (b)->len && ((b)->overflow == 0 || ((b)->pos == (b)->len && VP_TAIL_OK (b))))

/* emit_c: writes the single byte start[pos], or - on the first overflow - the at most four tail bytes; nothing once overflowed */
static void emit_c (struct emit_buf *b, int c)
__CPROVER_requires (b != NULL && __CPROVER_rw_ok (b, sizeof (*b)) && b->len >= 0 && b->len <= VP_MAXLEN && (b->len == 0 || __CPROVER_rw_ok (b->start, (__CPROVER_size_t) b->len)))
__CPROVER_requires (VP_EB_INV (b))
__CPROVER_ensures (VP_EB_INV (b) && b->len == __CPROVER_old (b->len) && b->start == __CPROVER_old (b->start))
__CPROVER_ensures (__CPROVER_old (b->pos) < b->len
		   ? (b->pos == __CPROVER_old (b->pos) + 1 && b->start[__CPROVER_old (b->pos)] == (char) c && b->overflow == 0)
		   : (b->pos == b->len && b->overflow != 0))
__CPROVER_assigns (b->pos, b->overflow;
		   b->pos < b->len: b->start[b->pos];
		   b->pos >= b->len && !b->overflow && b->len >= 1: b->start[b->len - 1];
		   b->pos >= b->len && !b->overflow && b->len >= 2: b->start[b->len - 2];
		   b->pos >= b->len && !b->overflow && b->len >= 3: b->start[b->len - 3];
		   b->pos >= b->len && !b->overflow && b->len >= 4: b->start[b->len - 4]);

static struct emit_buf eb;
void h_emit_c (void) {
	int len = vp_nondet_i32 ();
	char *buf;
	__CPROVER_assume (len >= 0 && len <= VP_MAXLEN);
	buf = (char *) malloc ((size_t) len);
	__CPROVER_assume (buf != NULL);
	eb.start = buf; eb.len = len; eb.pos = vp_nondet_i32 (); eb.overflow = vp_nondet_i32 ();
	emit_c (&eb, vp_nondet_i32 ());
	VP_CANARY ();
}
/* Lemma over the contract of emit_c (callee replaced by its contract): any number of emit_c calls with non-NUL characters
   followed by the final emit_c (b, 0) of emit_mu_state / emit_cv_state leaves a NUL-terminated string (n >= 1) that ends with "..."
   when it was truncated and n >= 4; every write stays inside buf[0..n-1] (frame of the contract + cbmc bounds checks on a
   malloc(n) object). */
void h_emit_sequence (void) {
	int n = vp_nondet_i32 ();
	char *buf;
	struct emit_buf *b;
	int truncated;
	__CPROVER_assume (n >= 0 && n <= VP_MAXLEN);
	buf = (char *) malloc ((size_t) n);
	__CPROVER_assume (buf != NULL);
	b = emit_init (&eb, buf, n);
	while (vp_nondet_bool ())
	__CPROVER_assigns (eb.pos, eb.overflow, __CPROVER_object_whole (buf))
	__CPROVER_loop_invariant (VP_EB_INV (&eb) && eb.len == n && eb.start == buf)
	{
		int c = vp_nondet_i32 ();
		__CPROVER_assume ((char) c != 0);
		emit_c (b, c);
	}
	emit_c (b, 0);
	truncated = eb.overflow != 0;
	__CPROVER_assert (n < 1 || (truncated ? buf[n - 1] == 0 : (eb.pos >= 1 && buf[eb.pos - 1] == 0)), "C16: the result is NUL-terminated when n >= 1");
	__CPROVER_assert (!(truncated && n >= 4) || (buf[n - 4] == '.' && buf[n - 3] == '.' && buf[n - 2] == '.' && buf[n - 1] == 0), "C16: a truncated result ends with \"...\" when n >= 4");
	VP_CANARY ();
}
