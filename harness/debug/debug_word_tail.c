/* (appended after the functions extracted from internal/debug.c; see props/shared.py make_debug_word_tu) */
static lock_type Wt, Rt;
static nsync_mu the_mu;
static nsync_cv the_cv;
static char buf[4];

static void setup (void) {
	Wt.zero_to_acquire = MU_WZERO_TO_ACQUIRE; Wt.add_to_acquire = MU_WADD_TO_ACQUIRE; Wt.held_if_non_zero = MU_WHELD_IF_NON_ZERO;
	Wt.set_when_waiting = MU_WSET_WHEN_WAITING; Wt.clear_on_acquire = MU_WCLEAR_ON_ACQUIRE; Wt.clear_on_uncontended_release = MU_WCLEAR_ON_UNCONTENDED_RELEASE;
	Rt = Wt; Rt.zero_to_acquire = MU_RZERO_TO_ACQUIRE; Rt.add_to_acquire = MU_RADD_TO_ACQUIRE; Rt.held_if_non_zero = MU_RHELD_IF_NON_ZERO;
	nsync_writer_type_ = &Wt; nsync_reader_type_ = &Rt;
	vp_reg_clear ();
	vp_fw_init ();
	vp_reg.mu_word = &the_mu.word;
	vp_reg.cv_word = &the_cv.word;
	vp_mu_init_ghost (VP_NONE, 0, 0);
	vp_g.observer = 1;
	the_mu.word = vp_mu_any_word ();
	the_mu.waiters = vp_nondet_bool () ? NULL : &vp_fw.nw.q;
	the_cv.word = vp_nondet_u32 () & (CV_SPINLOCK | CV_NON_EMPTY);
	the_cv.waiters = vp_nondet_bool () ? NULL : &vp_fw.nw.q;
}
void h_debug_mu (void) {
	int n = (int) (vp_nondet_u32 () % 5);
	setup ();
	if (vp_nondet_bool ()) (void) nsync_mu_debug_state (&the_mu, buf, n);
	else (void) nsync_mu_debug_state_and_waiters (&the_mu, buf, n);
	__CPROVER_assert (!vp_g.spin && vp_g.hold == VP_NONE, "C16: the debug-state call returns owning neither the mutex nor its queue spinlock");
	VP_CANARY ();
}
void h_debug_cv (void) {
	int n = (int) (vp_nondet_u32 () % 5);
	setup ();
	if (vp_nondet_bool ()) (void) nsync_cv_debug_state (&the_cv, buf, n);
	else (void) nsync_cv_debug_state_and_waiters (&the_cv, buf, n);
	__CPROVER_assert (!vp_cvg.spin, "C16: the debug-state call returns without the cv spinlock");
	VP_CANARY ();
}
