/* Wrapper TU for the unmodified internal/counter.c (C10, C19, C13 waker clause). */
#include "vp_cnt.h"
#include "c_time.h"
#include "counter.c"

#define VP_C_FIELDS vp_c.cas_count, vp_c.cas_old, vp_c.cas_new, vp_c.load_valid, vp_c.last_load, vp_c.last_load_acq, vp_c.raising_from_zero
#define VP_AMU_FIELDS vp_amu.held, vp_amu.lock_calls, vp_amu.unlock_calls
#define VP_WK_FIELDS vp_wk.cleared, vp_wk.posted, vp_wk.pending, vp_wk.last_cleared
#define VP_CNT_IS(c) ((c) != NULL && __CPROVER_rw_ok ((c), sizeof (*(c))) && &(c)->value == vp_reg.value_word && \
	&(c)->waited == vp_c.waited_word && vp_c.mu == &(c)->counter_mu && vp_amu.addr[0] == &(c)->counter_mu && !vp_c.fresh)

/* "applies its delta atomically and returns the value that resulted": exactly one successful CAS old -> old+delta, made under
   the lock, and the result is that new value; delta == 0 returns a value the word held (an acquire load).
   "every thread waiting when the counter reaches zero is released": the waiter list is empty when the lock is dropped at zero,
   and every flag cleared was followed by a post (hook obligations). */
uint32_t nsync_counter_add (nsync_counter c, int32_t delta)
__CPROVER_requires (VP_CNT_IS (c) && !vp_amu.held[0] && vp_c.cas_count == 0 && !vp_wk.pending && vp_wk.lock == &c->counter_mu)
__CPROVER_requires (c->waiters == NULL || c->waiters == &vp_fw.nw.q)
__CPROVER_ensures (!vp_amu.held[0] && !vp_wk.pending)
__CPROVER_ensures (delta != 0 || (vp_c.cas_count == 0 && vp_c.load_valid && vp_c.last_load_acq && __CPROVER_return_value == vp_c.last_load))
__CPROVER_ensures (delta == 0 || (vp_c.cas_count == 1 && vp_c.cas_new == vp_c.cas_old + (uint32_t) delta && __CPROVER_return_value == vp_c.cas_new))
__CPROVER_ensures (delta == 0 || __CPROVER_return_value != 0 || (c->waiters == NULL && vp_wk.cleared == vp_wk.posted))
__CPROVER_ensures (delta == 0 || __CPROVER_return_value == 0 || (c->waiters == __CPROVER_old (c->waiters) && vp_wk.cleared == __CPROVER_old (vp_wk.cleared)))
__CPROVER_assigns (c->value, c->waiters, VP_FW_DATA, VP_C_FIELDS, VP_AMU_FIELDS, VP_WK_FIELDS, vp_g.v_calls, c->waited);

uint32_t nsync_counter_value (nsync_counter c)
__CPROVER_requires (VP_CNT_IS (c))
__CPROVER_ensures (vp_c.load_valid && vp_c.last_load_acq && __CPROVER_return_value == vp_c.last_load && vp_c.cas_count == __CPROVER_old (vp_c.cas_count))
__CPROVER_assigns (c->value, VP_C_FIELDS);

static nsync_time counter_ready_time (void *v, struct nsync_waiter_s *nw)
__CPROVER_requires (VP_CNT_IS ((nsync_counter) v))
__CPROVER_ensures (vp_c.load_valid && vp_c.last_load_acq)
__CPROVER_ensures (vp_c.last_load == 0 ? (__CPROVER_return_value.tv_sec == 0 && __CPROVER_return_value.tv_nsec == 0)
				       : (__CPROVER_return_value.tv_sec == nsync_time_no_deadline.tv_sec && __CPROVER_return_value.tv_nsec == nsync_time_no_deadline.tv_nsec))
__CPROVER_assigns (((nsync_counter) v)->value, ((nsync_counter) v)->waited, VP_C_FIELDS);

/* interface contract (public/nsync_waiter.h): "If *v is ready, return zero; otherwise enqueue *nw on *v and return non-zero" -
   decided under the counter's lock, so the value cannot change in between */
static int counter_enqueue (void *v, struct nsync_waiter_s *nw)
__CPROVER_requires (VP_CNT_IS ((nsync_counter) v) && !vp_amu.held[0] && nw != NULL && __CPROVER_rw_ok (nw, sizeof (*nw)))
__CPROVER_ensures (!vp_amu.held[0] && vp_c.cas_count == __CPROVER_old (vp_c.cas_count))
__CPROVER_ensures ((__CPROVER_return_value != 0) == (vp_c.last_load != 0) && vp_c.load_valid)
__CPROVER_ensures (nw->waiting == (__CPROVER_return_value != 0 ? 1u : 0u))
__CPROVER_ensures (__CPROVER_return_value != 0 ? ((nsync_counter) v)->waiters == &nw->q : ((nsync_counter) v)->waiters == __CPROVER_old (((nsync_counter) v)->waiters))
__CPROVER_assigns (((nsync_counter) v)->value, ((nsync_counter) v)->waiters, nw->waiting, VP_FW_DATA, VP_C_FIELDS, VP_AMU_FIELDS);

/* "If nw has been previously dequeued, return zero; otherwise dequeue *nw from *v and return non-zero": waiters are only ever
   dequeued by others when the value is zero, so under the lock 'value != 0' decides it; on return nw is not waiting. */
static int counter_dequeue (void *v, struct nsync_waiter_s *nw)
__CPROVER_requires (VP_CNT_IS ((nsync_counter) v) && !vp_amu.held[0] && nw != NULL && __CPROVER_rw_ok (nw, sizeof (*nw)))
__CPROVER_ensures (!vp_amu.held[0] && vp_c.cas_count == __CPROVER_old (vp_c.cas_count))
__CPROVER_ensures ((__CPROVER_return_value != 0) == (vp_c.last_load != 0) && vp_c.load_valid)
__CPROVER_ensures (nw->waiting == 0)
__CPROVER_assigns (((nsync_counter) v)->value, ((nsync_counter) v)->waiters, nw->waiting, VP_FW_DATA, VP_C_FIELDS, VP_AMU_FIELDS);

/* nsync_wait_n on this one counter, by its contract (C11): 0 = index of the ready object, 1 = count = timed out */
int nsync_wait_n (void *mu, void (*lock) (void *), void (*unlock) (void *), nsync_time abs_deadline, int count, struct nsync_waitable_s *waitable[])
__CPROVER_requires (count == 1 && mu == NULL)
__CPROVER_ensures (__CPROVER_return_value == 0 || __CPROVER_return_value == 1)
__CPROVER_assigns ();

/* "returns 0 only if the counter has reached zero and non-zero only once its deadline has passed": 0 iff nsync_wait_n reported
   the counter ready, or the value it then loaded (acquire) is 0; a non-zero result is that loaded value after a reported timeout */
uint32_t nsync_counter_wait (nsync_counter c, nsync_time abs_deadline)
__CPROVER_requires (VP_CNT_IS (c))
__CPROVER_ensures (__CPROVER_return_value == 0 || (vp_c.load_valid && vp_c.last_load_acq && __CPROVER_return_value == vp_c.last_load))
__CPROVER_assigns (c->value, VP_C_FIELDS);

/* C19: allocation failure is reported as NULL and nothing else is touched; otherwise a counter holding 'value' */
nsync_counter nsync_counter_new (uint32_t value)
__CPROVER_requires (vp_c.fresh)
__CPROVER_ensures (__CPROVER_return_value == NULL ||
		   (__CPROVER_is_fresh (__CPROVER_return_value, sizeof (struct nsync_counter_s_)) && __CPROVER_return_value->value == value &&
		    __CPROVER_return_value->waiters == NULL && __CPROVER_return_value->waited == 0 && __CPROVER_return_value->counter_mu.word == 0 &&
		    __CPROVER_return_value->counter_mu.waiters == NULL))
__CPROVER_assigns ();

/* ------------------------------------------------------------------ harnesses */
static struct nsync_counter_s_ the_c;
static struct nsync_waiter_s the_nw;
static nsync_semaphore the_sem;
static void setup (void) {
	vp_reg_clear ();
	vp_amu_reset ();
	vp_cnt_init_ghost (&the_c.counter_mu, &the_c.waited);
	vp_reg.value_word = &the_c.value;
	vp_amu_register (&the_c.counter_mu, 0);
	the_c.value = vp_nondet_u32 ();
	the_c.waited = vp_nondet_u32 () % 2;
	the_c.waiters = vp_nondet_bool () ? NULL : &vp_fw.nw.q;
	vp_fw_init ();
	vp_wk.lock = &the_c.counter_mu;
	the_nw.sem = &the_sem; the_nw.q.container = &the_nw; the_nw.q.next = &the_nw.q; the_nw.q.prev = &the_nw.q;
	the_nw.waiting = vp_nondet_u32 () % 2;
}
void h_counter_add (void) { setup (); (void) nsync_counter_add (&the_c, vp_nondet_i32 ()); VP_CANARY (); }
void h_counter_value (void) { setup (); (void) nsync_counter_value (&the_c); VP_CANARY (); }
void h_counter_ready_time (void) { setup (); (void) counter_ready_time (&the_c, vp_nondet_bool () ? &the_nw : NULL); VP_CANARY (); }
void h_counter_enqueue (void) { setup (); (void) counter_enqueue (&the_c, &the_nw); VP_CANARY (); }
void h_counter_dequeue (void) { setup (); (void) counter_dequeue (&the_c, &the_nw); VP_CANARY (); }
void h_counter_wait (void) { nsync_time d; setup (); d.tv_sec = vp_nondet_i64 (); d.tv_nsec = vp_nondet_i64 (); (void) nsync_counter_wait (&the_c, d); VP_CANARY (); }
void h_counter_new (void) {
	vp_reg_clear (); vp_amu_reset (); vp_cnt_init_ghost (NULL, NULL); vp_c.fresh = 1;
	(void) nsync_counter_new (vp_nondet_u32 ());
	VP_CANARY ();
}
