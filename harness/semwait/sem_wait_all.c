/* Wrapper TU for the unmodified internal/sem_wait.c: nsync_sem_wait_with_cancel_ (C05 reasons, C13 cancellable wait). */
#include "vp_note.h"
#include "c_time.h"

static int le_zero (nsync_time t) { return t.tv_sec < 0 || (t.tv_sec == 0 && t.tv_nsec <= 0); }
static int t_eq (nsync_time a, nsync_time b) { return a.tv_sec == b.tv_sec && a.tv_nsec == b.tv_nsec; }
#define VP_NOTIFIED(n) ((n)->notified != 0 || ((n)->expiry_time_valid != 0 && le_zero ((n)->expiry_time)))
#define VP_NOTE_IS(n, i) ((n) != NULL && __CPROVER_rw_ok ((n), sizeof (*(n))) && vp_nt.note[i] == (n) && vp_amu.addr[i] == &(n)->note_mu && (n)->notified <= 1u && \
	((n)->expiry_time_valid == 0 || VP_NORM ((n)->expiry_time)))

struct vp_semwait_ghost { unsigned p_calls; nsync_time p_deadline; int p_result; };
static struct vp_semwait_ghost vp_sw;
static struct nsync_note_s_ the_note;
static waiter the_w;
static struct nsync_waiter_s foreign;   /* another thread's cancellable wait, possibly queued on the same note */

/* contracts of the callees in note.c (proved in harness/note/note_all.c; restated here in the form this caller needs) */
nsync_time nsync_note_notified_deadline_ (nsync_note n)
__CPROVER_requires (VP_NOTE_IS (n, 0) && !vp_amu.held[0])
__CPROVER_ensures (!vp_amu.held[0] && n->notified <= 1u && (n->notified == __CPROVER_old (n->notified) || n->notified == 1u))
__CPROVER_ensures (le_zero (__CPROVER_return_value) ? VP_NOTIFIED (n)
		   : (n->expiry_time_valid ? t_eq (__CPROVER_return_value, n->expiry_time) : t_eq (__CPROVER_return_value, nsync_time_no_deadline)))
__CPROVER_ensures (n->notified == __CPROVER_old (n->notified) ? __CPROVER_pointer_equals (n->waiters, __CPROVER_old (n->waiters)) : n->waiters == NULL)   /* a notification empties the waiter list */
__CPROVER_assigns (n->notified, n->waiters);
void nsync_note_notify (nsync_note n)
__CPROVER_requires (VP_NOTE_IS (n, 0) && !vp_amu.held[0])
__CPROVER_ensures (VP_NOTIFIED (n) && !vp_amu.held[0] && n->notified <= 1u && (n->notified == __CPROVER_old (n->notified) || n->notified == 1u))
__CPROVER_ensures (n->notified == __CPROVER_old (n->notified) ? __CPROVER_pointer_equals (n->waiters, __CPROVER_old (n->waiters)) : n->waiters == NULL)
__CPROVER_assigns (n->notified, n->waiters);

/* VP-ASSUMED: the timed semaphore wait (C12): 0, or ETIMEDOUT only once the clock has reached the deadline it was given; never ETIMEDOUT for no_deadline */
int nsync_mu_semaphore_p_with_deadline (nsync_semaphore *s, nsync_time d) {
	__CPROVER_assert (s == &the_w.sem, "C05: the thread sleeps on its own semaphore");
	__CPROVER_assert (!vp_amu.held[0], "C05/C13: the thread does not sleep holding the note's lock");
	if (vp_nt.note[0] != NULL) {
		/* "once the note is notified the call needs no further wake-up": it sleeps only while a record that posts its own semaphore is on the
		   note's waiter list (a notifier clears that record's flag and posts it) */
		struct nsync_waiter_s *last = the_note.waiters != NULL ? (struct nsync_waiter_s *) the_note.waiters->container : NULL;
		__CPROVER_assert (the_note.notified != 0 || (last != NULL && last != &foreign && last->sem == &the_w.sem && last->waiting == 1 && last->tag == NSYNC_WAITER_TAG),
				  "C05: a cancellable wait sleeps only while registered on its note, with a record that posts its own semaphore (a notification needs no further wake-up)");
	}
	vp_sw.p_calls++; vp_sw.p_deadline = d;
	vp_sw.p_result = (vp_nondet_bool () && !t_eq (d, nsync_time_no_deadline)) ? ETIMEDOUT : 0;
	/* while this thread sleeps another thread may notify the note: it then sets the flag and removes every waiter, under note_mu */
	if (vp_nt.note[0] != NULL && the_note.notified == 0 && vp_nondet_bool ()) { the_note.notified = 1; the_note.waiters = NULL; }
	return vp_sw.p_result;
}
void nsync_mu_semaphore_init (nsync_semaphore *s) { (void) s; }
void nsync_mu_semaphore_p (nsync_semaphore *s) { (void) s; }
void nsync_mu_semaphore_v (nsync_semaphore *s) { (void) s; }

#include "sem_wait.c"

/* C05: ETIMEDOUT only if the timed wait was given exactly abs_deadline and timed out (so, by C12, the deadline has been reached);
        ECANCELED only if the note is notified at return; with no note the result is that of the timed wait on abs_deadline.
   C13: on return this call's stack record is on no list of the note (the list is what it was, or was emptied by a notifier), and
        the note's lock is not held. */
int nsync_sem_wait_with_cancel_ (waiter *w, nsync_time abs_deadline, nsync_note cancel_note)
__CPROVER_requires (w == &the_w && VP_NORM (abs_deadline) && vp_sw.p_calls == 0)
__CPROVER_requires (cancel_note == NULL || (VP_NOTE_IS (cancel_note, 0) && !vp_amu.held[0] && cancel_note == &the_note &&
					    (the_note.waiters == NULL || (the_note.waiters == &foreign.q && foreign.q.next == &foreign.q && foreign.q.prev == &foreign.q))))
__CPROVER_ensures (__CPROVER_return_value == 0 || __CPROVER_return_value == ETIMEDOUT || __CPROVER_return_value == ECANCELED)
__CPROVER_ensures (__CPROVER_return_value != ETIMEDOUT || (vp_sw.p_calls == 1 && vp_sw.p_result == ETIMEDOUT && t_eq (vp_sw.p_deadline, abs_deadline)))
__CPROVER_ensures (__CPROVER_return_value != ECANCELED || (cancel_note != NULL && VP_NOTIFIED (cancel_note)))
__CPROVER_ensures (cancel_note != NULL || (vp_sw.p_calls == 1 && __CPROVER_return_value == vp_sw.p_result && t_eq (vp_sw.p_deadline, abs_deadline)))
__CPROVER_ensures (vp_sw.p_calls <= 1)
__CPROVER_ensures (cancel_note == NULL || (!vp_amu.held[0] &&
		   (the_note.waiters == NULL || (the_note.waiters == &foreign.q && foreign.q.next == &foreign.q && foreign.q.prev == &foreign.q))))
__CPROVER_ensures (cancel_note == NULL || the_note.waiters == NULL || the_note.waiters == __CPROVER_old (the_note.waiters))
__CPROVER_assigns (vp_sw, the_note.notified, the_note.waiters, foreign.q.next, foreign.q.prev, vp_nt.seen_set, vp_nt.set_by_me, vp_amu.held, vp_amu.lock_calls, vp_amu.unlock_calls);

void h_sem_wait (void) {
	nsync_time d; int with_note = vp_nondet_bool ();
	vp_reg_clear (); vp_amu_reset (); vp_note_reset (); vp_clock_reset (); vp_tags_init ();
	d.tv_sec = vp_nondet_i64 (); d.tv_nsec = vp_nondet_i64 ();
	the_note.notified = vp_nondet_u32 () % 2; the_note.expiry_time_valid = vp_nondet_bool ();
	the_note.expiry_time.tv_sec = vp_nondet_i64 (); the_note.expiry_time.tv_nsec = vp_nondet_i64 ();
	__CPROVER_assume (VP_NORM (the_note.expiry_time));
	foreign.q.container = &foreign; foreign.q.next = &foreign.q; foreign.q.prev = &foreign.q; foreign.waiting = 1;
	the_note.waiters = vp_nondet_bool () ? NULL : &foreign.q;
	if (with_note) { vp_nt.note[0] = &the_note; vp_amu_register (&the_note.note_mu, 0); }
	vp_sw.p_calls = 0;
	(void) nsync_sem_wait_with_cancel_ (&the_w, d, with_note ? &the_note : NULL);
	VP_CANARY ();
}
