/* C18: nsync_time_zero <= t <= nsync_time_no_deadline for every non-negative
   normalised t, on the REAL constants and the REAL nsync_time_cmp body (plain
   cbmc harness, no contract instrumentation, loop-free: a complete proof). */
#include "c_time.h"
#include "vp_nondet.h"
void h_time_bounds (void) {
	nsync_time t;
	t.tv_sec = vp_nondet_i64 ();
	t.tv_nsec = vp_nondet_i64 ();
	__CPROVER_assume (t.tv_sec >= 0 && VP_NORM (t));
	__CPROVER_assert (nsync_time_cmp (nsync_time_zero, t) <= 0, "C18: zero <= t");
	__CPROVER_assert (nsync_time_cmp (t, nsync_time_no_deadline) <= 0, "C18: t <= no_deadline");
	__CPROVER_assert (nsync_time_zero.tv_sec == 0 && nsync_time_zero.tv_nsec == 0, "C18: zero is (0,0)");
	__CPROVER_assert (nsync_time_no_deadline.tv_sec == VP_SEC_MAX && nsync_time_no_deadline.tv_nsec == VP_NS - 1, "C18: no_deadline is (max,1e9-1)");
	VP_CANARY ();
}
