/* C18 harnesses.  Each establishes the shape of the arguments and calls ONE
   real function; goto-instrument --dfcc --enforce-contract checks the real
   body against contracts/c_time.h.  The lemma harnesses (h_lemma_*) call the
   functions with --replace-call-with-contract, i.e. they are lemmas over the
   contracts, not over the bodies. */
#include "c_time.h"
#include "vp_nondet.h"

unsigned vp_q, vp_r;

static nsync_time any_time (void) {
	nsync_time t;
	t.tv_sec = vp_nondet_i64 ();
	t.tv_nsec = vp_nondet_i64 ();
	return t;
}

void h_time_add (void) {
	nsync_time a = any_time (), b = any_time (), r;
	VP_PRE (VP_PRE_time_add (a, b));
	r = nsync_time_add (a, b);
	VP_POST ("nsync_time_add.postcondition", VP_POST_time_add (a, b, r));
	VP_CANARY ();
}
void h_time_sub (void) {
	nsync_time a = any_time (), b = any_time (), r;
	VP_PRE (VP_PRE_time_sub (a, b));
	r = nsync_time_sub (a, b);
	VP_POST ("nsync_time_sub.postcondition", VP_POST_time_sub (a, b, r));
	VP_CANARY ();
}
void h_time_cmp (void) {
	nsync_time a = any_time (), b = any_time ();
	int r = nsync_time_cmp (a, b);
	VP_POST ("nsync_time_cmp.postcondition", VP_POST_time_cmp (a, b, r));
	VP_CANARY ();
}
void h_time_s_ns (void) {
	time_t s = vp_nondet_i64 (); unsigned ns = vp_nondet_u32 ();
	nsync_time r = nsync_time_s_ns (s, ns);
	VP_POST ("nsync_time_s_ns.postcondition", VP_POST_time_s_ns (s, ns, r));
	VP_CANARY ();
}
void h_time_ms (void) {
	unsigned ms; nsync_time r;
	vp_q = vp_nondet_u32 (); vp_r = vp_nondet_u32 (); ms = vp_nondet_u32 ();
	VP_PRE (VP_PRE_time_ms (ms));
	r = nsync_time_ms (ms);
	VP_POST ("nsync_time_ms.postcondition", VP_POST_time_ms (ms, r));
	VP_CANARY ();
}
void h_time_us (void) {
	unsigned us; nsync_time r;
	vp_q = vp_nondet_u32 (); vp_r = vp_nondet_u32 (); us = vp_nondet_u32 ();
	VP_PRE (VP_PRE_time_us (us));
	r = nsync_time_us (us);
	VP_POST ("nsync_time_us.postcondition", VP_POST_time_us (us, r));
	VP_CANARY ();
}

#ifdef VP_CPROVER
/* ---- lemmas over the contracts (callees replaced by their contracts) ---- */

/* (a+b)-b == a, barring overflow of the seconds field */
void h_lemma_add_sub (void) {
	nsync_time a = any_time (), b = any_time (), s, d;
	__CPROVER_assume (VP_PRE_time_add (a, b));
	s = nsync_time_add (a, b);
	__CPROVER_assume (VP_SUB_OK (s, b));
	d = nsync_time_sub (s, b);
	__CPROVER_assert (d.tv_sec == a.tv_sec && d.tv_nsec == a.tv_nsec, "C18: (a+b)-b == a");
	VP_CANARY ();
}
/* cmp is a total order */
void h_lemma_cmp_order (void) {
	nsync_time a = any_time (), b = any_time (), c = any_time ();
	int ab = nsync_time_cmp (a, b), ba = nsync_time_cmp (b, a), bc = nsync_time_cmp (b, c),
	    ac = nsync_time_cmp (a, c), aa = nsync_time_cmp (a, a);
	__CPROVER_assert (aa == 0, "C18: cmp reflexive");
	__CPROVER_assert (ab == -ba, "C18: cmp antisymmetric");
	__CPROVER_assert (ab >= -1 && ab <= 1, "C18: cmp in {-1,0,1}");
	__CPROVER_assert (!(ab == 0) || (a.tv_sec == b.tv_sec && a.tv_nsec == b.tv_nsec), "C18: cmp==0 iff equal");
	__CPROVER_assert (!(ab <= 0 && bc <= 0) || ac <= 0, "C18: cmp transitive");
	__CPROVER_assert (!(ab < 0 && bc <= 0) || ac < 0, "C18: cmp strictly transitive");
	VP_CANARY ();
}
/* cmp agrees with the sign of a-b */
void h_lemma_cmp_sub (void) {
	nsync_time a = any_time (), b = any_time (), d;
	int c, sign;
	__CPROVER_assume (VP_PRE_time_sub (a, b));
	d = nsync_time_sub (a, b);
	c = nsync_time_cmp (a, b);
	sign = d.tv_sec < 0 ? -1 : (d.tv_sec == 0 && d.tv_nsec == 0) ? 0 : 1;
	__CPROVER_assert (c == sign, "C18: cmp consistent with the sign of a-b");
	VP_CANARY ();
}
#endif
