/* C17 sequence-view step lemma on the REAL dll.c bodies (bounded: at most
   VP_N nodes in total over two disjoint lists plus free singletons).
   From an ARBITRARY well-formed state (any split of the pool into list A, list
   B and free nodes, in any order) perform ONE operation and check that the
   first/last/next/prev traversals yield exactly op_spec(sequence), forwards
   and backwards.  Because the step starts from an arbitrary well-formed state,
   it covers operation sequences of any length over pools of this size. */
#include "c_dll.h"
#include "vp_nondet.h"

#ifndef VP_N
#define VP_N 5
#endif
static nsync_dll_element_ nd[VP_N];
static int perm[VP_N];
static int lenA, lenB;
static nsync_dll_list_ headA, headB;
static nsync_dll_element_ *expct[VP_N + 1];

static void build_ring (int from, int len, nsync_dll_list_ *head) {
	int i;
	*head = NULL;
	for (i = 0; i < len; i++) {
		nsync_dll_element_ *e = &nd[perm[from + i]];
		nsync_dll_element_ *nx = &nd[perm[from + (i + 1 == len ? 0 : i + 1)]];
		e->next = nx;
		nx->prev = e;
		*head = e;           /* head points at the last element */
	}
}
static void build (void) {
	int i, j;
	for (i = 0; i < VP_N; i++) {
		uint32_t v = vp_nondet_u32 ();
		__CPROVER_assume (v < VP_N);
		perm[i] = (int) v;
		for (j = 0; j < i; j++) __CPROVER_assume (perm[j] != perm[i]);
		nd[i].container = &nd[i];
	}
	lenA = (int) (vp_nondet_u32 () % (VP_N + 1));
	lenB = (int) (vp_nondet_u32 () % (VP_N + 1));
	__CPROVER_assume (lenA + lenB <= VP_N);
	build_ring (0, lenA, &headA);
	build_ring (lenA, lenB, &headB);
	for (i = lenA + lenB; i < VP_N; i++) {   /* free nodes are self-linked singletons */
		nd[perm[i]].next = &nd[perm[i]];
		nd[perm[i]].prev = &nd[perm[i]];
	}
}
#define A(i) (&nd[perm[(i)]])
#define B(i) (&nd[perm[lenA + (i)]])

static void check_list (nsync_dll_list_ head, int len) {
	int i;
	nsync_dll_element_ *p;
	__CPROVER_assert ((nsync_dll_is_empty_ (head) != 0) == (len == 0), "C17: emptiness reported exactly for the empty sequence");
	p = nsync_dll_first_ (head);
	for (i = 0; i < len; i++) {
		__CPROVER_assert (p == expct[i], "C17: forward traversal yields the abstract sequence");
		p = nsync_dll_next_ (head, p);
	}
	__CPROVER_assert (p == NULL, "C17: forward traversal ends after the last element");
	p = nsync_dll_last_ (head);
	for (i = len - 1; i >= 0; i--) {
		__CPROVER_assert (p == expct[i], "C17: backward traversal yields the abstract sequence");
		p = nsync_dll_prev_ (head, p);
	}
	__CPROVER_assert (p == NULL, "C17: backward traversal ends before the first element");
}
static void check_untouched_B (void) {
	int i;
	for (i = 0; i < lenB; i++) expct[i] = B (i);
	check_list (headB, lenB);
}

void h_seq_make_last (void) {
	int i; nsync_dll_element_ *e;
	build ();
	__CPROVER_assume (lenA + lenB < VP_N);
	e = &nd[perm[lenA + lenB]];          /* a free singleton */
	headA = nsync_dll_make_last_in_list_ (headA, e);
	for (i = 0; i < lenA; i++) expct[i] = A (i);
	expct[lenA] = e;
	check_list (headA, lenA + 1);
	check_untouched_B ();
	VP_CANARY ();
}
void h_seq_make_first (void) {
	int i; nsync_dll_element_ *e;
	build ();
	__CPROVER_assume (lenA + lenB < VP_N);
	e = &nd[perm[lenA + lenB]];
	headA = nsync_dll_make_first_in_list_ (headA, e);
	expct[0] = e;
	for (i = 0; i < lenA; i++) expct[i + 1] = A (i);
	check_list (headA, lenA + 1);
	check_untouched_B ();
	VP_CANARY ();
}
void h_seq_remove (void) {
	int i, k, n = 0; nsync_dll_element_ *e;
	build ();
	__CPROVER_assume (lenA > 0);
	k = (int) (vp_nondet_u32 () % VP_N);
	__CPROVER_assume (k < lenA);
	e = A (k);
	headA = nsync_dll_remove_ (headA, e);
	for (i = 0; i < lenA; i++) if (i != k) expct[n++] = A (i);
	check_list (headA, lenA - 1);
	__CPROVER_assert (e->next == e && e->prev == e, "C17: a removed element is a self-linked singleton");
	check_untouched_B ();
	/* ... that can be inserted again */
	headA = nsync_dll_make_last_in_list_ (headA, e);
	n = 0;
	for (i = 0; i < lenA; i++) if (i != k) expct[n++] = A (i);
	expct[lenA - 1] = e;
	check_list (headA, lenA);
	VP_CANARY ();
}
/* append / prepend a whole list (the idiom of mu.c:406: make_last (waiters, last (new_waiters))) */
void h_seq_append_list (void) {
	int i;
	build ();
	headA = nsync_dll_make_last_in_list_ (headA, nsync_dll_last_ (headB));
	for (i = 0; i < lenA; i++) expct[i] = A (i);
	for (i = 0; i < lenB; i++) expct[lenA + i] = B (i);
	check_list (headA, lenA + lenB);
	VP_CANARY ();
}
void h_seq_prepend_list (void) {
	int i;
	build ();
	headA = nsync_dll_make_first_in_list_ (headA, nsync_dll_first_ (headB));
	for (i = 0; i < lenB; i++) expct[i] = B (i);
	for (i = 0; i < lenA; i++) expct[lenB + i] = A (i);
	check_list (headA, lenA + lenB);
	VP_CANARY ();
}
/* splice_after acts on rings: ring(p) = p p2 .. plast, ring(n) = n .. nlast  ==>  p n .. nlast p2 .. plast */
void h_seq_splice (void) {
	int i, ip, in, n = 0; nsync_dll_element_ *p;
	build ();
	__CPROVER_assume (lenA > 0 && lenB > 0);
	ip = (int) (vp_nondet_u32 () % VP_N); in = (int) (vp_nondet_u32 () % VP_N);
	__CPROVER_assume (ip < lenA && in < lenB);
	nsync_dll_splice_after_ (A (ip), B (in));
	expct[n++] = A (ip);
	for (i = 0; i < lenB; i++) expct[n++] = B ((in + i) % lenB);
	for (i = 1; i < lenA; i++) expct[n++] = A ((ip + i) % lenA);
	p = A (ip);
	for (i = 0; i < lenA + lenB; i++) {
		__CPROVER_assert (p == expct[i], "C17: splice yields the spliced ring, forwards");
		p = p->next;
	}
	__CPROVER_assert (p == A (ip), "C17: spliced ring closes forwards");
	for (i = lenA + lenB - 1; i >= 0; i--) {
		p = p->prev;
		__CPROVER_assert (p == expct[i], "C17: splice yields the spliced ring, backwards");
	}
	VP_CANARY ();
}
