/* C17 harnesses for the pointer-level contracts: every pointer argument and
   every link field is an arbitrary choice among the nodes of a small pool (or
   NULL), so every aliasing pattern of the neighbourhood an operation can touch
   (at most 5 distinct nodes) is covered; the contract's requires clause, which
   --enforce-contract assumes, then selects the legal shapes.  The proof is for
   lists of any length because no clause mentions anything beyond the
   neighbourhood. */
#include "c_dll.h"
#include "vp_nondet.h"

#define POOL 6
static nsync_dll_element_ nd[POOL];

static nsync_dll_element_ *pick (int allow_null) {
	uint32_t i = vp_nondet_u32 ();
	if (allow_null && i == 0xffffffffu) return NULL;
	i = i % POOL;
	return &nd[i];
}
static void any_links (void) {
	int i;
	for (i = 0; i != POOL; i++) {
		nd[i].next = pick (1);
		nd[i].prev = pick (1);
		nd[i].container = NULL;
	}
}

void h_dll_init (void) { nsync_dll_element_ *e = pick (0); any_links (); nsync_dll_init_ (e, (void *) (uintptr_t) vp_nondet_u64 ()); VP_CANARY (); }
void h_dll_is_empty (void) { nsync_dll_list_ l = pick (1); any_links (); (void) nsync_dll_is_empty_ (l); VP_CANARY (); }
void h_dll_remove (void) { nsync_dll_list_ l; nsync_dll_element_ *e; any_links (); l = pick (1); e = pick (1); (void) nsync_dll_remove_ (l, e); VP_CANARY (); }
void h_dll_splice (void) { nsync_dll_element_ *p, *n; any_links (); p = pick (1); n = pick (1); nsync_dll_splice_after_ (p, n); VP_CANARY (); }
void h_dll_make_first (void) { nsync_dll_list_ l; nsync_dll_element_ *e; any_links (); l = pick (1); e = pick (1); (void) nsync_dll_make_first_in_list_ (l, e); VP_CANARY (); }
void h_dll_make_last (void) { nsync_dll_list_ l; nsync_dll_element_ *e; any_links (); l = pick (1); e = pick (1); (void) nsync_dll_make_last_in_list_ (l, e); VP_CANARY (); }
void h_dll_first (void) { nsync_dll_list_ l; any_links (); l = pick (1); (void) nsync_dll_first_ (l); VP_CANARY (); }
void h_dll_last (void) { nsync_dll_list_ l; any_links (); l = pick (1); (void) nsync_dll_last_ (l); VP_CANARY (); }
void h_dll_next (void) { nsync_dll_list_ l; nsync_dll_element_ *e; any_links (); l = pick (1); e = pick (1); (void) nsync_dll_next_ (l, e); VP_CANARY (); }
void h_dll_prev (void) { nsync_dll_list_ l; nsync_dll_element_ *e; any_links (); l = pick (1); e = pick (1); (void) nsync_dll_prev_ (l, e); VP_CANARY (); }
