/* Wrapper TU for the unmodified internal/wait.c (C11): nsync_wait_n is verified
   against the INTERFACE contract of struct nsync_waitable_funcs_s
   (public/nsync_waiter.h:131-147), with ghost per-call bookkeeping in the
   stub waitables instead of quantifiers. */
#include "vp_rg.h"
#include "c_time.h"

#ifndef VP_MAXC
#define VP_MAXC 6
#endif
struct vp_wait_ghost {
	int count;
	nsync_time abs_deadline;
	int first_ready_at_poll;        /* first index whose initial ready_time was <= 0, or count */
	int n_poll0;                    /* initial polls made (nw == NULL) */
	int n_enq;                      /* enqueue calls so far (must be on indices 0,1,2,... in order) */
	int enq_refused;                /* some enqueue returned 0 (object already ready) */
	int n_deq;
	int first_deq_zero;             /* first index whose dequeue returned 0, or count */
	int unlock_calls, lock_calls;
	int round_next;                 /* next index expected in the current ready_time polling round */
	int round_complete;             /* a full round 0..count-1 has just been polled */
	nsync_time round_min;           /* min (abs_deadline, ready times polled in this round) */
	int round_any_ready;            /* some ready time of this round was <= 0 */
	unsigned p_calls;
	int timed_out;                  /* the semaphore wait reported ETIMEDOUT */
	nsync_time timeout_at;          /* ... with this deadline */
	int ready_reached[VP_MAXC];     /* object j reported ready_time t_j and the sleep timed out at t_j < abs_deadline: it is ready now */
	nsync_time last_rt[VP_MAXC];
	void *nw_seen[VP_MAXC];         /* the nsync_waiter_s passed to enqueue (dequeue must get the same) */
	void *the_mu;
};
static struct vp_wait_ghost vp_w;

static int le_zero (nsync_time t);
static int t_eq (nsync_time a, nsync_time b);
/* The contract of nsync_wait_n over the ghost bookkeeping of the stub waitables (postconditions written from the statement of C11). */
#define VP_WAIT_POST(r, count, d) ( \
	(r) >= 0 && (r) <= (count) && \
	(vp_w.first_ready_at_poll != (count) \
	 ? ((r) == vp_w.first_ready_at_poll && vp_w.n_enq == 0 && vp_w.p_calls == 0)      /* ready on entry: reported at once */ \
	 : le_zero (d) \
	   ? ((r) == (count) && vp_w.n_enq == 0 && vp_w.p_calls == 0)                      /* deadline not in the future: count, no waiting */ \
	   : (vp_w.n_deq == vp_w.n_enq && vp_w.n_enq >= ((count) == 0 ? 0 : 1) &&          /* registered on none of the objects */ \
	      (r) == vp_w.first_deq_zero &&                                                 /* first object found ready, or count */ \
	      ((r) != (count) || (count) == 0 || (vp_w.timed_out && t_eq (vp_w.timeout_at, (d)))))) && /* count only after the deadline passed */ \
	vp_w.lock_calls == vp_w.unlock_calls)                                               /* mutex held again iff it was released */
int nsync_wait_n (void *mu, void (*lock) (void *), void (*unlock) (void *), nsync_time abs_deadline, int count, struct nsync_waitable_s *waitable[])
__CPROVER_requires (count >= 0 && count <= VP_MAXC && count == vp_w.count && mu == vp_w.the_mu && VP_NORM (abs_deadline) && t_eq (abs_deadline, vp_w.abs_deadline))
__CPROVER_requires (vp_w.n_poll0 == 0 && vp_w.n_enq == 0 && vp_w.n_deq == 0 && vp_w.unlock_calls == 0 && vp_w.lock_calls == 0 && vp_w.p_calls == 0 &&
		    vp_w.first_ready_at_poll == count && vp_w.first_deq_zero == count && !vp_w.enq_refused && !vp_w.timed_out)
__CPROVER_ensures (VP_WAIT_POST (__CPROVER_return_value, count, abs_deadline))
__CPROVER_assigns (vp_w);
#include "wait.c"


static waiter the_waiter;

static int le_zero (nsync_time t) { return t.tv_sec < 0 || (t.tv_sec == 0 && t.tv_nsec <= 0); }
static int t_lt (nsync_time a, nsync_time b) { return VP_LT (a, b); }
static int t_eq (nsync_time a, nsync_time b) { return a.tv_sec == b.tv_sec && a.tv_nsec == b.tv_nsec; }

/* ---- the waitable interface, as stubs with ghost bookkeeping ---- */
static nsync_time vp_ready_time (void *v, struct nsync_waiter_s *nw) {
	int j = (int) (uintptr_t) v;
	nsync_time t;
	t.tv_sec = vp_nondet_i64 (); t.tv_nsec = vp_nondet_i64 ();
	__CPROVER_assume (VP_NORM (t));
	__CPROVER_assert (j >= 0 && j < vp_w.count, "C11: ready_time is called on one of the caller's objects");
	if (nw == NULL) {
		__CPROVER_assert (j == vp_w.n_poll0 && vp_w.n_enq == 0, "C11: the initial poll visits the objects in order, before any registration");
		vp_w.n_poll0++;
		if (le_zero (t) && vp_w.first_ready_at_poll == vp_w.count) vp_w.first_ready_at_poll = j;
	} else {
		__CPROVER_assert (vp_w.n_enq == vp_w.count, "C11: ready times are re-polled only after registration was attempted on every object");
		/* interface (nsync_waiter.h): once an object is ready, ready_time reports 0; an object that refused registration was ready */
		if (vp_w.enq_refused && j == vp_w.count - 1) { t.tv_sec = 0; t.tv_nsec = 0; }
		__CPROVER_assert (nw == vp_w.nw_seen[j], "C11: ready_time is given the waiter record registered on that object");
		if (j == 0) { vp_w.round_next = 0; vp_w.round_min = vp_w.abs_deadline; vp_w.round_any_ready = 0; vp_w.round_complete = 0; }
		__CPROVER_assert (j == vp_w.round_next, "C11: every sleep is preceded by a poll of ALL objects, in order");
		vp_w.round_next = j + 1;
		if (t_lt (t, vp_w.round_min)) vp_w.round_min = t;
		if (le_zero (t)) { vp_w.round_any_ready = 1; vp_w.ready_reached[j] = 1; }   /* ready from now on (interface: stays ready) */
		vp_w.last_rt[j] = t;
		if (vp_w.round_next == vp_w.count) vp_w.round_complete = 1;
	}
	return t;
}
static int vp_enqueue (void *v, struct nsync_waiter_s *nw) {
	int j = (int) (uintptr_t) v;
	int r = vp_nondet_bool ();
	__CPROVER_assert (j == vp_w.n_enq && !vp_w.enq_refused, "C11: registration visits the objects in order and stops at the first that is already ready");
	__CPROVER_assert (vp_w.unlock_calls == 0, "C11: the mutex is released only after registration on every object");
	__CPROVER_assert (nw != NULL && nw->sem == &the_waiter.sem && nw->flags == 0 && nw->q.next == &nw->q && nw->q.prev == &nw->q && nw->q.container == nw,
			  "C11: each object is given an initialised waiter record that posts this thread's semaphore");
	vp_w.nw_seen[j] = nw;
	vp_w.n_enq++;
	if (!r) vp_w.enq_refused = 1;
	return r;
}
static int vp_dequeue (void *v, struct nsync_waiter_s *nw) {
	int j = (int) (uintptr_t) v;
	int r = vp_nondet_bool ();
	__CPROVER_assert (j == vp_w.n_deq && j < vp_w.n_enq, "C11: exactly the objects on which registration was attempted are deregistered, in order");
	__CPROVER_assert (nw == vp_w.nw_seen[j], "C11: dequeue is given the record that was registered on that object");
	__CPROVER_assert (vp_w.lock_calls == 0, "C11: the mutex is re-acquired only after deregistration from every object");
	/* interface assumption: an object whose announced ready time has been reached is ready, and an object that refused
	   registration because it was ready reports 'not queued' */
	if (vp_w.ready_reached[j]) r = 0;
	if (vp_w.enq_refused && j == vp_w.n_enq - 1) r = 0;
	vp_w.n_deq++;
	if (!r && vp_w.first_deq_zero == vp_w.count) vp_w.first_deq_zero = j;
	return r;
}
static const struct nsync_waitable_funcs_s vp_funcs = { &vp_ready_time, &vp_enqueue, &vp_dequeue };

static void vp_unlock (void *mu) {
	__CPROVER_assert (mu == vp_w.the_mu && mu != NULL, "C11: the caller's mutex is the one released");
	__CPROVER_assert (vp_w.n_enq == vp_w.count && vp_w.unlock_calls == 0 && vp_w.n_deq == 0,
			  "C11: the mutex is released once, after registration was attempted on every object");
	vp_w.unlock_calls++;
}
static void vp_lock (void *mu) {
	__CPROVER_assert (mu == vp_w.the_mu && vp_w.unlock_calls == 1 && vp_w.lock_calls == 0 && vp_w.n_deq == vp_w.n_enq,
			  "C11: the mutex is re-acquired exactly once, iff it was released, after deregistration");
	vp_w.lock_calls++;
}

/* VP-ASSUMED: the malloc of nsync_wait_n's bookkeeping array (count > 4) succeeds: wait.c does not check its result; this unchecked allocation is outside C19's statement (constructors only) and is reported as such */
void *malloc (__CPROVER_size_t n) { return __CPROVER_allocate (n, 0); }

/* the thread's waiter record and semaphore */
waiter *nsync_waiter_new_ (void) { return &the_waiter; }
void nsync_waiter_free_ (waiter *w) { (void) w; }
/* VP-ASSUMED: timed semaphore wait (its own contract is C12/C15): 0, or ETIMEDOUT only when the clock has reached the given deadline */
int nsync_mu_semaphore_p_with_deadline (nsync_semaphore *s, nsync_time d) {
	__CPROVER_assert (s == &the_waiter.sem, "C11: the thread sleeps on its own semaphore");
	if (vp_w.count == 0) { vp_w.round_complete = 1; vp_w.round_next = 0; vp_w.round_min = vp_w.abs_deadline; vp_w.round_any_ready = 0; }
	__CPROVER_assert (vp_w.round_complete && vp_w.round_next == vp_w.count, "C11: every sleep is preceded by a poll of ALL objects");
	__CPROVER_assert (!vp_w.round_any_ready, "C11: it does not go (back) to sleep once an object reports ready");
	__CPROVER_assert (t_eq (d, vp_w.round_min), "C11: it sleeps until the earliest of the deadline and the objects' ready times");
	__CPROVER_assert (vp_w.unlock_calls == (vp_w.the_mu != NULL ? 1 : 0), "C11: the mutex is released while waiting");
	vp_w.round_complete = 0;
	vp_w.p_calls++;
	if (vp_nondet_bool ()) return 0;
	if (t_eq (d, nsync_time_no_deadline)) return 0;          /* never times out */
	vp_w.timed_out = 1; vp_w.timeout_at = d;
#define VP_REACHED(j) if ((j) < vp_w.count && t_eq (vp_w.last_rt[j], d) && t_lt (d, vp_w.abs_deadline)) vp_w.ready_reached[j] = 1
	VP_REACHED (0); VP_REACHED (1); VP_REACHED (2); VP_REACHED (3); VP_REACHED (4); VP_REACHED (5);
#if VP_MAXC > 6
#error extend VP_REACHED
#endif
	return ETIMEDOUT;
}

static struct nsync_waitable_s wt[VP_MAXC];
static struct nsync_waitable_s *pw[VP_MAXC];
static int the_mutex_object;

void h_wait_n (void) {
	int count = (int) (vp_nondet_u32 () % (VP_MAXC + 1));
	int i, r, use_mu = vp_nondet_bool ();
	nsync_time d; d.tv_sec = vp_nondet_i64 (); d.tv_nsec = vp_nondet_i64 ();
	__CPROVER_assume (VP_NORM (d));
	vp_reg_clear ();
	for (i = 0; i < VP_MAXC; i++) {
		wt[i].v = (void *) (uintptr_t) i; wt[i].funcs = &vp_funcs; pw[i] = &wt[i];
		vp_w.ready_reached[i] = 0; vp_w.nw_seen[i] = NULL;
		vp_w.last_rt[i] = nsync_time_no_deadline;
	}
	vp_w.count = count; vp_w.abs_deadline = d; vp_w.first_ready_at_poll = count; vp_w.n_poll0 = 0; vp_w.n_enq = 0; vp_w.enq_refused = 0;
	vp_w.n_deq = 0; vp_w.first_deq_zero = count; vp_w.unlock_calls = 0; vp_w.lock_calls = 0; vp_w.round_next = 0; vp_w.round_complete = 0;
	vp_w.round_min = d; vp_w.round_any_ready = 0; vp_w.p_calls = 0; vp_w.timed_out = 0; vp_w.timeout_at = d;
	vp_w.the_mu = use_mu ? (void *) &the_mutex_object : NULL;
	r = nsync_wait_n (vp_w.the_mu, &vp_lock, &vp_unlock, d, count, pw);
	(void) r;
	VP_CANARY ();
}
