/* Assumed contracts for the environment and the ABSTRACT waiter queue used
   inside word-level proofs (DESIGN.md section 3).  Every stub is listed in the
   evidence through its VP-ASSUMED marker. */
#include "vp_rg.h"
#ifdef VP_WK_LOCKED
#include "vp_amu.h"
#endif

/* VP-ASSUMED: nsync_panic_ does not return (a panic is a documented abort on API misuse) */
void nsync_panic_ (const char *s) { (void) s; VP_ASSUME (0); }
/* VP-ASSUMED: nsync_yield_ has no effect on nsync state */
void nsync_yield_ (void) { }

/* VP-ASSUMED: per-thread waiter storage (thread-local / pthread key) is modelled as absent: nsync_waiter_new_ is replaced by its contract wherever it is called */
void *nsync_per_thread_waiter_ (void (*dest) (void *)) { (void) dest; return NULL; }
void nsync_set_per_thread_waiter_ (void *v, void (*dest) (void *)) { (void) v; (void) dest; }

#ifndef VP_REAL_SEM
/* VP-ASSUMED: nsync_mu_semaphore_p/v/p_with_deadline touch only the semaphore (arbitrary effect on the waiter's private state, none on any nsync word); this covers counting and binary semaphores */
void nsync_mu_semaphore_init (nsync_semaphore *s) { (void) s; }
void nsync_mu_semaphore_p (nsync_semaphore *s) {
	(void) s;
#ifdef VP_RG_MU
	/* C02 H5: the sleep/wake handshake: a thread blocks only after it published waiting = 1 (before it released the queue spinlock) */
	VP_ASSERT (vp_g.queued, "C02: a thread sleeps on its semaphore only after publishing waiting = 1 for its queued record");
#endif
	vp_g.p_calls++;
}
void nsync_mu_semaphore_v (nsync_semaphore *s) {
	(void) s;
	vp_g.v_calls++;
#ifdef VP_RG_MU
	/* C13: a waiter woken by a thread that no longer holds the lock may acquire, find it is the last user and free the mutex:
	   from the first such post on the mutex must not be touched (the queue spinlock bit does not keep anybody out) */
	if (vp_g.release_ctx && vp_g.hold == VP_NONE) vp_g.dead = 1;
#endif
#ifdef VP_RG_WAKER
	VP_ASSERT (vp_wk.pending, "C02/C04: a waker posts a waiter's semaphore only after clearing that waiter's waiting flag");
#ifdef VP_WK_LOCKED
	if (vp_wk.lock != NULL) VP_ASSERT (vp_amu_held (vp_wk.lock), "C13: the waker posts the waiter's semaphore while holding the lock that the waiter's dequeue takes");
#endif
	vp_wk.pending = 0;
	vp_wk.posted++;
#endif
}
int nsync_mu_semaphore_p_with_deadline (nsync_semaphore *s, nsync_time abs_deadline) {
	(void) s; (void) abs_deadline;
	vp_g.p_calls++;
	return vp_nondet_bool () ? ETIMEDOUT : 0;
}
#endif

#ifdef VP_ABSTRACT_QUEUE
/* VP-ASSUMED: abstract waiter queue inside word-level proofs: nsync_dll_* return NULL or some valid waiter record with arbitrary contents (a sound over-approximation for properties of the word; the exact behaviour of dll.c is proved under C17) */
waiter vp_fw;   /* one record; its DATA fields are re-havoced at every call (contents always arbitrary); its links, container and
                   semaphore pointers are set once by vp_fw_init () and never written again */
void vp_fw_init (void) {
	vp_fw.nw.q.container = &vp_fw.nw;
	vp_fw.nw.q.next = &vp_fw.nw.q;
	vp_fw.nw.q.prev = &vp_fw.nw.q;
	vp_fw.nw.sem = &vp_fw.sem;
	vp_fw.same_condition.container = &vp_fw;
	vp_fw.same_condition.next = &vp_fw.same_condition;
	vp_fw.same_condition.prev = &vp_fw.same_condition;
	vp_fw.tag = WAITER_TAG;
	vp_fw.nw.tag = NSYNC_WAITER_TAG;
#ifdef VP_TWO_RECORDS
	vp_fw2.nw.q.container = &vp_fw2.nw; vp_fw2.nw.q.next = &vp_fw2.nw.q; vp_fw2.nw.q.prev = &vp_fw2.nw.q; vp_fw2.nw.sem = &vp_fw2.sem;
	vp_fw2.same_condition.container = &vp_fw2; vp_fw2.same_condition.next = &vp_fw2.same_condition; vp_fw2.same_condition.prev = &vp_fw2.same_condition;
	vp_fw2.tag = WAITER_TAG; vp_fw2.nw.tag = NSYNC_WAITER_TAG;
#endif
}
#ifdef VP_TWO_RECORDS
waiter vp_fw2;  /* a second, distinct foreign record (bounded, non-dfcc groups only), so that "first != last" is representable */
#endif
static nsync_dll_element_ *some_record (void) {
	waiter *w = &vp_fw;
#ifdef VP_TWO_RECORDS
	if (vp_nondet_bool ()) w = &vp_fw2;
#endif
	w->nw.waiting = vp_nondet_u32 ();
	w->nw.flags = (uint32_t) vp_nondet_u32 ();
	w->remove_count = vp_nondet_u32 ();
	/* a cv waiter is associated with the mutex under proof, or with none */
	w->cv_mu = vp_nondet_bool () ? NULL : (struct nsync_mu_s_ *) vp_reg.mu_word;
	w->flags = vp_nondet_i32 ();
	w->l_type = vp_nondet_bool () ? nsync_writer_type_ : nsync_reader_type_;
#ifdef VP_RG_MU
	w->cond.f = vp_nondet_bool () ? vp_condition : NULL;   /* a conditional waiter (nsync_mu_wait) or a plain one */
#else
	w->cond.f = NULL;
#endif
	return &w->nw.q;
}
void nsync_dll_init_ (nsync_dll_element_ *e, void *container) { e->next = e; e->prev = e; e->container = container; }
int nsync_dll_is_empty_ (nsync_dll_list_ list) { return list == NULL; }
nsync_dll_list_ nsync_dll_remove_ (nsync_dll_list_ list, nsync_dll_element_ *e) {
	(void) e;
	if (vp_nondet_bool ()) return NULL;
	return list == e ? some_record () : list;
}
void nsync_dll_splice_after_ (nsync_dll_element_ *p, nsync_dll_element_ *n) { (void) p; (void) n; }
nsync_dll_list_ nsync_dll_make_first_in_list_ (nsync_dll_list_ list, nsync_dll_element_ *e) {
	if (e == NULL) return list;
	if (list == NULL) return vp_nondet_bool () ? e : some_record ();
	return list;
}
nsync_dll_list_ nsync_dll_make_last_in_list_ (nsync_dll_list_ list, nsync_dll_element_ *e) {
	return e != NULL ? e : list;
}
nsync_dll_element_ *nsync_dll_first_ (nsync_dll_list_ list) {
	if (list == NULL) return NULL;
	return vp_nondet_bool () ? list : some_record ();
}
nsync_dll_element_ *nsync_dll_last_ (nsync_dll_list_ list) { return list; }
nsync_dll_element_ *nsync_dll_next_ (nsync_dll_list_ list, nsync_dll_element_ *e) {
	if (e == list) return NULL;
	return vp_nondet_bool () ? list : some_record ();
}
nsync_dll_element_ *nsync_dll_prev_ (nsync_dll_list_ list, nsync_dll_element_ *e) {
	(void) list; (void) e;
	return vp_nondet_bool () ? NULL : some_record ();
}
#endif
