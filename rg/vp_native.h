/* VP_PRE / VP_POST: no-ops under cbmc (the contract instrumentation checks
   them); evaluated on the real code in native replay. */
#ifndef VP_NATIVE_H_
#define VP_NATIVE_H_
#ifdef VP_NATIVE
void vp_native_pre (int ok, const char *what);
void vp_native_post (int ok, const char *name, const char *what);
#define VP_PRE(c) vp_native_pre ((c), #c)
#define VP_POST(name, c) vp_native_post ((c), name, #c)
/* contract clauses vanish for gcc */
#define __CPROVER_requires(x)
#define __CPROVER_ensures(x)
#define __CPROVER_assigns(...)
#define __CPROVER_frees(...)
#else
#define VP_PRE(c) ((void) 0)
#define VP_POST(name, c) ((void) 0)
#endif
#endif
