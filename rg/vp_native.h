/* VP_PRE / VP_POST: no-ops under cbmc (the contract instrumentation checks
   them); evaluated on the real code in native replay. */
#ifndef VP_NATIVE_H_
#define VP_NATIVE_H_
#ifdef VP_NATIVE
void vp_native_pre (int ok, const char *what);
void vp_native_post (int ok, const char *name, const char *what);
#define VP_PRE(c) vp_native_pre ((c), #c)
#define VP_POST(name, c) vp_native_post ((c), name, #c)
/* contract clauses vanish for gcc; harness-level assume / assert are evaluated on the real code */
#define __CPROVER_requires(x)
#define __CPROVER_ensures(x)
#define __CPROVER_assigns(...)
#define __CPROVER_frees(...)
void vp_native_fail (const char *msg);
void vp_native_diverged (const char *what);
#define __CPROVER_assume(c) do { if (!(c)) vp_native_diverged (#c); } while (0)
#define __CPROVER_assert(c, msg) do { if (!(c)) vp_native_fail (msg); } while (0)
#define __CPROVER_rw_ok(p, n) 1
#define __CPROVER_r_ok(p, n) 1
#else
#define VP_PRE(c) ((void) 0)
#define VP_POST(name, c) ((void) 0)
#endif
#endif
