/* Abstract mutexes / condition variables for proofs about code that merely
   USES an nsync_mu (once, counter, note, wait): the ghost-level contract of the
   mutex API proved under C01 (lock => held exclusively by me; unlock requires
   held), keyed by address.  */
#ifndef VP_AMU_H_
#define VP_AMU_H_
#include "vp_rg.h"
#define VP_AMU_MAX 4
struct vp_amu_state {
	const void *addr[VP_AMU_MAX];
	int held[VP_AMU_MAX];        /* 0 free (as far as this thread is concerned), 1 held by me (write mode) */
	unsigned lock_calls;         /* blocking acquisitions made by this thread */
	unsigned unlock_calls;
	unsigned cv_waits;           /* condition-variable waits made by this thread */
	unsigned cv_broadcasts;
};
extern struct vp_amu_state vp_amu;
void vp_amu_reset (void);
void vp_amu_register (const void *mu, int held);
int vp_amu_held (const void *mu);
#endif
