/* Rely/guarantee layer: ghost state of "this thread", the registry of shared
   words under a protocol, and the assertion macros shared by proof and replay.
   Ghost variables are never read by nsync code; they appear only in contracts,
   harnesses and in the hooks behind ATM_*. */
#ifndef VP_RG_H_
#define VP_RG_H_
#include <stdint.h>
#include "nsync_cpp.h"
#include "platform.h"
#include "compiler.h"
#include "cputype.h"
#include "nsync.h"
#include "dll.h"
#include "sem.h"
#include "wait_internal.h"
#include "common.h"
#include "atomic.h"
#include "vp_nondet.h"
#include "vp_native.h"

#ifdef VP_CPROVER
#define VP_ASSERT(c, msg) __CPROVER_assert ((c), msg)
#define VP_ASSUME(c) __CPROVER_assume (c)
#else
void vp_native_fail (const char *msg);
void vp_native_diverged (const char *what);
#define VP_ASSERT(c, msg) do { if (!(c)) vp_native_fail (msg); } while (0)
#define VP_ASSUME(c) do { if (!(c)) vp_native_diverged (#c); } while (0)
#endif

#define VP_NONE 0
#define VP_READER 1
#define VP_WRITER 2

/* ghost of this thread with respect to ONE mutex word */
struct vp_mu_ghost {
	int hold;        /* VP_NONE / VP_READER / VP_WRITER */
	int spin;        /* owns the queue spinlock */
	int waited;      /* was queued on the mutex and has observed its waiting flag cleared (a woken waiter) */
	int queued;      /* stored waiting=1 and has not yet observed 0 with acquire order, nor dequeued itself */
	int l1_check;    /* C14 L1 is checked at enqueue steps (set by the lock_slow harness) */
	int dead;        /* C13: the mutex may already have been reclaimed by another thread */
	int release_ctx; /* C13: set by harnesses of release functions */
	int set_desig;   /* C02: this thread set MU_DESIG_WAKER and has not yet accounted for it */
	unsigned v_calls;     /* number of semaphore posts made by this thread */
	unsigned p_calls;     /* number of (possibly) blocking semaphore waits made by this thread */
	unsigned cond_evals;  /* number of condition evaluations */
	int longw_set;   /* this thread set MU_LONG_WAIT */
	int scan_ctx;    /* harness: the call under proof is the scanning thread's re-acquisition of the spinlock (nsync_mu_unlock_slow_) */
	int enq_long;    /* last enqueue transition carried MU_LONG_WAIT */
	uint32_t enq_count;   /* number of enqueue transitions made */
	int no_wakeup_ctx; /* C06: the release in progress is nsync_mu_unlock_without_wakeup (may leave MU_ALL_FALSE set) */
	int h4_check;    /* C02 H4 is checked at spinlock releases (set by the unlock_slow harness) */
	int released_with_desig; /* C02 H1: this thread's releasing step left the MU_DESIG_WAKER it had set */
	int observer;    /* C16: this thread is a pure observer (debug): must not change anything but the spinlock bit */
	uint32_t last_new; /* last value this thread wrote */
	int last_cond;     /* result of the most recent condition evaluation by this thread */
	int last_sem_outcome; /* result of the most recent nsync_sem_wait_with_cancel_ */
};
extern struct vp_mu_ghost vp_g;

struct vp_registry {
	nsync_atomic_uint32_ *mu_word;      /* word of the mutex under proof */
	nsync_atomic_uint32_ *my_waiting;   /* waiting flag of this thread's own waiter record */
	nsync_atomic_uint32_ *cv_word;
	nsync_atomic_uint32_ *once_word;
	nsync_atomic_uint32_ *sem_word;
	nsync_atomic_uint32_ *value_word;   /* counter value */
	nsync_atomic_uint32_ *notified_word;
};
extern struct vp_registry vp_reg;
/* tag constants (always 0) that mark property-carrying loop-invariant clauses: "(vp_tag_Cxx_name != 0 || clause)" */
extern int vp_tag_C14_escalate, vp_tag_C03_wake_acq, vp_tag_C06_eval_held, vp_tag_C02_resp, vp_tag_C07_once, vp_tag_C12_sem, vp_tag_C10_cnt, vp_tag_C11_wait, vp_tag_C16_buf, vp_tag_C05_reason, vp_tag_C13_dead, vp_tag_C01_hold, vp_tag_C04_consume, vp_tag_C08_note;
void vp_tags_init (void);
void vp_reg_clear (void);
int vp_condition (const void *arg);   /* the client's condition: arbitrary result; C06: only ever called with the mutex held */
extern waiter vp_my_w; /* this thread's own (reserved) waiter record */
extern waiter vp_fw;
#ifdef VP_TWO_RECORDS
extern waiter vp_fw2;
#endif
void vp_fw_init (void);
/* the fields of the foreign record that the abstract queue re-havocs */
#define VP_FW_DATA vp_fw.nw.waiting, vp_fw.nw.flags, vp_fw.remove_count, vp_fw.cv_mu, vp_fw.flags, vp_fw.l_type, vp_fw.cond.f   /* the abstract queue's foreign waiter record (arbitrary contents) */

/* waker-side ghost (VP_RG_WAKER) */
#define VP_WK_MAX 4
struct vp_waker_ghost {
	struct nsync_waiter_s *rec[VP_WK_MAX];   /* harness-registered foreign waiter records */
	unsigned cleared;       /* waiting flags this thread cleared */
	unsigned posted;        /* semaphores this thread posted */
	int pending;            /* a flag was cleared and its semaphore not yet posted */
	nsync_atomic_uint32_ *last_cleared;
	const void *lock;       /* C13: the lock the waiter's dequeue takes; must be held across clear+post (NULL: none required) */
};
extern struct vp_waker_ghost vp_wk;

/* ghost of this thread with respect to ONE condition variable (VP_RG_CV) */
struct vp_cv_ghost {
	int spin;               /* owns the cv's queue spinlock */
	int in_wait;            /* inside nsync_cv_wait_with_deadline_generic */
	int enq_done;           /* C04: the spinlock section that put this waiter on the cv queue (CV_NON_EMPTY set) has completed */
	int unlinked_by_other;  /* a waker has unlinked this thread's waiter record (remove_count moved while I did not own the spinlock) */
	int self_dequeued;      /* this thread removed its own record (timeout / cancellation) */
	unsigned sections;      /* completed spinlock sections */
	nsync_atomic_uint32_ *my_remove_count;
};
extern struct vp_cv_ghost vp_cvg;

/* projection of the global invariant J on this thread's ghost */
int vp_mu_inv_me (uint32_t w);
void vp_mu_init_ghost (int hold, int spin, int waited);
uint32_t vp_mu_any_word (void);   /* an arbitrary word consistent with the ghost */

#endif
