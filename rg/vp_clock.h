#ifndef VP_CLOCK_H_
#define VP_CLOCK_H_
#include "vp_rg.h"
struct vp_clock_ghost { int valid; nsync_time last; unsigned reads; };
extern struct vp_clock_ghost vp_clk;
void vp_clock_reset (void);
#endif
