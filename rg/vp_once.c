/* The once word under rely/guarantee (C07).
   G: the only transitions are 0 -> 1 by a compare-and-swap expecting 0, and
      1 -> 2 by the thread that made 0 -> 1 (the claimant), after it ran the
      function; 2 is absorbing.
   R: others may move 0 -> 1 -> 2, but not 1 -> 2 while I am the claimant. */
#include "vp_once.h"
struct vp_once_ghost vp_o;
void vp_once_init_ghost (void) { struct vp_once_ghost z = {0}; vp_o = z; vp_tags_init (); }

static void once_interfere (nsync_atomic_uint32_ *p) {
	uint32_t before = *p, after = vp_nondet_u32 ();
	VP_ASSUME (after <= 2u && after >= before);
	if (vp_o.winner && !vp_o.stored_done) VP_ASSUME (after == before);   /* only the claimant completes */
	if (!vp_o.winner && vp_o.runs == 0 && 0) { }
	*p = after;
}
int vp_once_cas (nsync_atomic_uint32_ *p, uint32_t o, uint32_t n, int order) {
	once_interfere (p);
	if (*p != o) return 0;
	VP_ASSERT (o == 0 && n == 1, "C07: the once word is claimed only by a compare-and-swap 0 -> 1");
	VP_ASSERT (order == VP_ACQ || order == VP_ACQREL, "C03: claiming the once is an acquire");
	vp_o.winner = 1;
	*p = n;
	return 1;
}
uint32_t vp_once_load (nsync_atomic_uint32_ *p, int order) {
	once_interfere (p);
	if (!vp_o.first_load_valid) { vp_o.first_load_valid = 1; vp_o.first_load = *p; }
	if (*p == 2u && (order == VP_ACQ || order == VP_ACQREL)) vp_o.saw_done_acq = 1;
	return *p;
}
void vp_once_store (nsync_atomic_uint32_ *p, uint32_t v, int order) {
	once_interfere (p);
	VP_ASSERT (v == 2u && *p == 1u && vp_o.winner, "C07: completion (2) is published only by the claimant, from state 1");
	VP_ASSERT (vp_o.runs == 1u, "C07: completion is published only after the claimant ran the function exactly once");
	VP_ASSERT (order == VP_REL || order == VP_ACQREL, "C03: publishing completion of the once-function is a release");
	vp_o.stored_done = 1;
	*p = v;
}
static void ran (void) {
	VP_ASSERT (vp_o.winner && !vp_o.stored_done, "C07: the function is run only by the claimant, before completion is published");
	VP_ASSERT (vp_o.runs == 0, "C07: the function is run at most once");
	VP_ASSERT (*vp_reg.once_word == 1u, "C07: the function runs while the once is in state 1 (claimed, not done)");
	vp_o.runs++;
}
void vp_once_f (void) { ran (); }
void vp_once_farg (void *arg) { (void) arg; ran (); }

