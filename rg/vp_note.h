#ifndef VP_NOTE_H_
#define VP_NOTE_H_
#include "vp_amu.h"
#include "vp_clock.h"
#define VP_NT_MAX 4
struct vp_note_ghost {
	struct nsync_note_s_ *note[VP_NT_MAX];   /* notes whose 'notified' flag is under the flag protocol */
	int seen_set[VP_NT_MAX];     /* this thread has observed flag == 1 with an acquire load, or set it itself */
	int set_by_me[VP_NT_MAX];
	int private_[VP_NT_MAX];     /* the note is not shared yet (under construction): nobody else touches its flag */
	unsigned notify_calls;       /* calls of the (contract-replaced) notify () made by the function under proof */
};
extern struct vp_note_ghost vp_nt;
void vp_note_reset (void);
int vp_note_index (nsync_atomic_uint32_ *p);
#endif
