/* VP-ASSUMED: clock_gettime(CLOCK_REALTIME) is monotone within one call of the code under proof, returns a normalised time at or after the epoch and below 2^62 s */
#include "vp_clock.h"
struct vp_clock_ghost vp_clk;
void vp_clock_reset (void) { vp_clk.valid = 0; vp_clk.reads = 0; vp_clk.last.tv_sec = 0; vp_clk.last.tv_nsec = 0; }
int clock_gettime (clockid_t clk, struct timespec *ts) {
	struct timespec t;
	(void) clk;
	t.tv_sec = vp_nondet_i64 ();
	t.tv_nsec = vp_nondet_i64 ();
	VP_ASSUME (t.tv_nsec >= 0 && t.tv_nsec < 1000000000L);
	VP_ASSUME (t.tv_sec >= 0 && t.tv_sec < ((int64_t) 1 << 62));
	if (vp_clk.valid) {
		VP_ASSUME (t.tv_sec > vp_clk.last.tv_sec || (t.tv_sec == vp_clk.last.tv_sec && t.tv_nsec >= vp_clk.last.tv_nsec));
	}
	vp_clk.last = t;
	vp_clk.valid = 1;
	VP_ASSUME (vp_clk.reads < 0xffffffffu);   /* fewer than 2^32 clock readings within one call */
	vp_clk.reads++;
	*ts = t;
	return 0;
}
