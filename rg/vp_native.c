/* Native replay support: vp_nondet_* read the verifier's values from a script
   file (one "<type> <value>" per line, in draw order); main() calls the
   harness selected with -DVP_ENTRY=<name>. */
#include <stdio.h>
#include <stdlib.h>
#include <string.h>
#include <stdint.h>
#include "vp_native.h"

static FILE *script;
static unsigned long long next_val (const char *want) {
	char ty[16]; char val[64];
	if (script == NULL || fscanf (script, "%15s %63s", ty, val) != 2) {
		/* past the end of the verifier's script: value irrelevant to the failure */
		return 0;
	}
	(void) want;
	if (val[0] == '-') return (unsigned long long) strtoll (val, NULL, 0);
	return strtoull (val, NULL, 0);
}
uint32_t vp_nondet_u32 (void) { return (uint32_t) next_val ("u32"); }
int32_t vp_nondet_i32 (void) { return (int32_t) next_val ("i32"); }
int64_t vp_nondet_i64 (void) { return (int64_t) next_val ("i64"); }
uint64_t vp_nondet_u64 (void) { return (uint64_t) next_val ("u64"); }
int vp_nondet_bool (void) { return next_val ("bool") != 0; }

void vp_native_pre (int ok, const char *what) {
	if (!ok) { printf ("REPLAY-DIVERGED precondition not met natively: %s\n", what); exit (3); }
}
void vp_native_post (int ok, const char *name, const char *what) {
	if (!ok) { printf ("REPLAY-CONFIRMED obligation=%s violated on the real code: %s\n", name, what); exit (1); }
}

void vp_native_fail (const char *msg) {
	printf ("REPLAY-CONFIRMED obligation violated on the real code: %s\n", msg);
	exit (1);
}
void vp_native_diverged (const char *what) {
	printf ("REPLAY-DIVERGED an assumption of the verifier's trace does not hold natively: %s\n", what);
	exit (3);
}
void VP_ENTRY (void);
int main (int argc, char **argv) {
	if (argc > 1) script = fopen (argv[1], "r");
	VP_ENTRY ();
	printf ("REPLAY-NOT-REPRODUCED harness completed without violating a checked obligation\n");
	return 0;
}
