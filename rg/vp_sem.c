/* The count word of the futex semaphore under rely/guarantee, the assumed
   contract of futex(2) and a monotone clock. */
#include "vp_sem.h"
#include "vp_clock.h"
#include <stdarg.h>
#include <linux/futex.h>
#include <sys/syscall.h>

struct vp_sem_ghost vp_s;
int vp_errno;
int *__errno_location (void) { return &vp_errno; }

void vp_sem_init_ghost (int role) {
	struct vp_sem_ghost z = {0};
	vp_tags_init ();
	vp_s = z;
	vp_s.role = role;
	vp_s.wake_after_post = 1;
	vp_clock_reset ();
}

static void sem_interfere (nsync_atomic_uint32_ *p) {
	uint32_t before = *p, after = vp_nondet_u32 ();
	if (vp_s.no_posts) { VP_ASSUME (after == before); }
	else if (vp_s.role == 0) { VP_ASSUME (after >= before); }     /* others only post */
	VP_ASSUME (after < 0x7fffffffu);                               /* the count fits an int with room for one more post */
	*p = after;
}
int vp_sem_cas (nsync_atomic_uint32_ *p, uint32_t o, uint32_t n, int order) {
	sem_interfere (p);
	if (*p != o) return 0;
	if (n == o - 1u && o != 0) {
		VP_ASSERT (vp_s.role == 0, "C12: only the waiter decrements its semaphore");
		VP_ASSERT (order == VP_ACQ || order == VP_ACQREL, "C03: the semaphore decrement (P) is an acquire");
		vp_s.taken++;
	} else if (n == o + 1u) {
		VP_ASSERT (order == VP_REL || order == VP_ACQREL, "C03: the semaphore increment (V) is a release");
		vp_s.posted++;
	} else {
		VP_ASSERT (0, "C12: the count changes by exactly one, and is decremented only when positive");
	}
	*p = n;
	return 1;
}
uint32_t vp_sem_load (nsync_atomic_uint32_ *p, int order) {
	(void) order;
	sem_interfere (p);
	vp_s.last_load = *p;
	vp_s.last_load_valid = 1;
	return *p;
}
void vp_sem_store (nsync_atomic_uint32_ *p, uint32_t v, int order) {
	(void) order;
	VP_ASSERT (0, "C12: the count is modified only by compare-and-swap");
	*p = v;
}

/* VP-ASSUMED: futex(2): FUTEX_WAIT with a valid timespec returns 0, or -1 with errno EINTR / EAGAIN / ETIMEDOUT (the last only with a timeout) in any order and number; an invalid timespec is EINVAL; compare-and-block is atomic with respect to FUTEX_WAKE */
long vp_syscall_futex (long number, int *uaddr, int op, int val, const struct timespec *ts, int *uaddr2, int val3) {
	(void) uaddr2; (void) val3;
	VP_ASSERT (number == SYS_futex, "C12: the system call is futex");
	VP_ASSERT ((nsync_atomic_uint32_ *) uaddr == vp_reg.sem_word, "C12: the futex call names the semaphore's own count");
	if ((op & FUTEX_CMD_MASK) == FUTEX_WAKE) {
		if (vp_s.posted == 0) vp_s.wake_after_post = 0;
		vp_s.wakes++;
		return (long) (vp_nondet_u32 () % 2);
	}
	VP_ASSERT ((op & FUTEX_CMD_MASK) == FUTEX_WAIT_BITSET || (op & FUTEX_CMD_MASK) == FUTEX_WAIT, "C12: only FUTEX_WAIT and FUTEX_WAKE are used");
	VP_ASSERT (ts == NULL || (ts->tv_sec >= 0 && ts->tv_nsec >= 0 && ts->tv_nsec < 1000000000L),
		   "C15: the futex timeout is a valid timespec (the kernel answers EINVAL otherwise)");
	VP_ASSERT (!vp_s.finite_deadline || ts != NULL,
		   "C15: a wait that was given a deadline passes a timeout to the kernel (with a NULL timeout the futex sleeps without limit and the deadline is ignored)");
	VP_ASSERT (val == 0 && vp_s.last_load_valid && vp_s.last_load == (uint32_t) val,
		   "C12: the semaphore sleeps only on the value it has just loaded, and only if that value is 0");
	vp_s.waits++;
	vp_s.futex_timedout = 0;
	{
		uint32_t r = vp_nondet_u32 () % 4;
		if (vp_s.kernel_prompt && ts != NULL && vp_clk.valid && *(uint32_t *) uaddr == (uint32_t) val &&
		    (ts->tv_sec < vp_clk.last.tv_sec || (ts->tv_sec == vp_clk.last.tv_sec && ts->tv_nsec <= vp_clk.last.tv_nsec))) {
			r = 3;   /* VP-ASSUMED: an absolute futex timeout that has already expired yields ETIMEDOUT at once */
		}
		if (r == 0) return 0;
		if (r == 1) { errno = EINTR; return -1; }
		if (r == 2 || ts == NULL) { errno = EAGAIN; return -1; }
		errno = ETIMEDOUT;
		vp_s.futex_timedout = 1;
		vp_s.reads_at_timeout = vp_clk.reads;
		return -1;
	}
}

