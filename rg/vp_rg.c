/* Rely/guarantee hooks behind ATM_* (see DESIGN.md section 3).

   For a word under a protocol every atomic step does, in this order:
     (1) interference: the word becomes ANY value the rely allows (what other
         threads may have done since this thread's previous step);
     (2) the step itself (atomic, sequentially consistent);
     (3) if the step wrote: the guarantee G is asserted on (old, new, ghost) and
         the ghost of this thread is updated;
     (4) the memory-order obligation of the transition type is asserted (C03).
   Locations that are not registered are havoced before every access (any
   environment), which over-approximates every other thread. */
#include "vp_rg.h"

struct vp_mu_ghost vp_g;
struct vp_registry vp_reg;
waiter vp_my_w;
int vp_tag_C14_escalate, vp_tag_C03_wake_acq, vp_tag_C06_eval_held, vp_tag_C02_resp, vp_tag_C07_once, vp_tag_C12_sem, vp_tag_C10_cnt, vp_tag_C11_wait, vp_tag_C16_buf, vp_tag_C05_reason, vp_tag_C13_dead, vp_tag_C01_hold, vp_tag_C04_consume, vp_tag_C08_note;
void vp_tags_init (void) {
	vp_tag_C14_escalate = 0; vp_tag_C03_wake_acq = 0; vp_tag_C06_eval_held = 0; vp_tag_C02_resp = 0; vp_tag_C07_once = 0; vp_tag_C12_sem = 0;
	vp_tag_C10_cnt = 0; vp_tag_C11_wait = 0; vp_tag_C16_buf = 0; vp_tag_C05_reason = 0; vp_tag_C13_dead = 0; vp_tag_C01_hold = 0; vp_tag_C04_consume = 0; vp_tag_C08_note = 0;
}

/* ------------------------------------------------------------------ */
/* The mutex word                                                      */

/* violated-clause bits returned by vp_mu_step() */
#define V_LOCKBITS   0x0001u  /* C01 */
#define V_SPIN_SET   0x0002u  /* C01/C02: spinlock taken while set / by its owner */
#define V_SPIN_CLR   0x0004u  /* spinlock cleared by a non-owner */
#define V_QUIET      0x0008u  /* a step that neither changes lock bits nor takes/releases the spinlock changed other bits illegally */
#define V_ORDER_ACQ  0x0010u  /* C03 */
#define V_ORDER_REL  0x0020u  /* C03 */
#define V_LONG_BARGE 0x0040u  /* C14 L2 */
#define V_LONG_CLEAR 0x0080u  /* C14 L3 */
#define V_DESIG_H2   0x0100u  /* C02 H2 */
#define V_WAITING    0x0200u  /* C02 H4a: MU_WAITING / MU_CONDITION changed without the spinlock */
#define V_DESIG_SET  0x0400u  /* C02 H1a: MU_DESIG_WAKER set other than together with taking the spinlock by a lock holder */
#define V_OBSERVER   0x0800u  /* C16: an observer changed more than the spinlock bit */
#define V_ALLFALSE   0x1000u  /* C06: MU_ALL_FALSE set without the spinlock, or left set by a writer's release */
#define V_RD_BARGE   0x2000u  /* C14 L2 (reader) */
#define V_LONG_L1    0x4000u  /* C14 L1 */
#define V_ALLFALSE_W 0x10000u /* C06 */
#define V_H4         0x20000u /* C02 H4 */
#define V_LONG_KEEP  0x40000u /* C02/C14 L4 */
#define V_ENQ_ALLF   0x80000u /* C02/C06 */
#define V_REL_NOWAKE 0x100000u /* C02/C06 */
#define V_QUEUED     0x8000u  /* C03: acquisition by a queued waiter that has not observed its wake-up with acquire order */

/* Decide which typed transition (old -> new) is for a thread with ghost *g,
   update *g, and return the set of violated G clauses. */
unsigned vp_mu_step (uint32_t old, uint32_t new_, struct vp_mu_ghost *g, int order) {
	unsigned viol = 0;
	uint32_t oL = old & MU_ANY_LOCK, nL = new_ & MU_ANY_LOCK;
	int acq_lock = 0, rel_lock = 0, acq_spin = 0, rel_spin = 0;
	int had_spin = g->spin;
	int was_waited = g->waited;
	int old_hold = g->hold;
	if (nL != oL) {
		if (g->hold == VP_NONE) {
			if (oL == 0 && nL == MU_WLOCK) {
				g->hold = VP_WRITER; acq_lock = 1;
			} else if ((old & MU_WLOCK) == 0 && (new_ & MU_WLOCK) == 0 && nL == oL + MU_RLOCK && nL > oL) {
				g->hold = VP_READER; acq_lock = 1;
			} else {
				viol |= V_LOCKBITS;
			}
		} else if (g->hold == VP_WRITER) {
			if (oL == MU_WLOCK && nL == 0) {
				g->hold = VP_NONE; rel_lock = 1;
			} else if (oL == MU_WLOCK && nL == MU_RLOCK) {
				g->hold = VP_READER; rel_lock = 1;           /* writer -> reader (timeout path keeps read mode) */
			} else {
				viol |= V_LOCKBITS;
			}
		} else { /* VP_READER */
			if ((old & MU_WLOCK) == 0 && (new_ & MU_WLOCK) == 0 && oL >= MU_RLOCK && nL == oL - MU_RLOCK) {
				g->hold = VP_NONE; rel_lock = 1;
			} else if (oL == MU_RLOCK && nL == MU_WLOCK) {
				g->hold = VP_WRITER; rel_lock = 1; acq_lock = 1;   /* last reader converts to writer to test conditions */
			} else {
				viol |= V_LOCKBITS;
			}
		}
	}
	if (((old ^ new_) & MU_SPINLOCK) != 0) {
		if ((new_ & MU_SPINLOCK) != 0) {
			if (g->spin) viol |= V_SPIN_SET;
			g->spin = 1; acq_spin = 1;
		} else {
			if (!g->spin) viol |= V_SPIN_CLR;
			g->spin = 0; rel_spin = 1;
		}
	} else if ((old & MU_SPINLOCK) != 0 && !g->spin && 0) {
	}
	/* quiet steps: no lock-bit change, spinlock neither taken nor released */
	if (nL == oL && !acq_spin && !rel_spin && new_ != old) {
		if (!((old & MU_SPINLOCK) == 0 && new_ == (old | MU_WRITER_WAITING))) viol |= V_QUIET;
	}
	/* a thread that does not own the spinlock before or after the step must not touch the
	   bits the spinlock protects: MU_WAITING, MU_CONDITION */
	if (((old ^ new_) & (MU_WAITING | MU_CONDITION)) != 0 && !had_spin && !acq_spin) viol |= V_WAITING;
	/* C03: declared order of the transition type */
	if ((acq_lock || acq_spin) && !(order == VP_ACQ || order == VP_ACQREL)) viol |= V_ORDER_ACQ;
	if ((rel_lock || rel_spin) && !(order == VP_REL || order == VP_ACQREL)) viol |= V_ORDER_REL;
	/* C14 L2: a thread that has not itself waited cannot acquire past MU_LONG_WAIT; a reader
	   that has not waited cannot acquire past MU_WRITER_WAITING either */
	if (acq_lock && old_hold == VP_NONE && !was_waited) {
		if ((old & MU_LONG_WAIT) != 0) viol |= V_LONG_BARGE;
		if (g->hold == VP_READER && (old & MU_WRITER_WAITING) != 0) viol |= V_RD_BARGE;
	}
	/* C14 L3: MU_LONG_WAIT is cleared only by the acquiring step of a thread that has waited */
	if ((old & MU_LONG_WAIT) != 0 && (new_ & MU_LONG_WAIT) == 0) {
		if (!(acq_lock && old_hold == VP_NONE && was_waited)) viol |= V_LONG_CLEAR;
	}
	/* C02/C14 L4: the thread that raised MU_LONG_WAIT clears it in the step in which it acquires: nobody else will, and with the bit
	   set no thread that has not waited can ever acquire the free mutex */
	if (acq_lock && old_hold == VP_NONE) {
		if (g->longw_set && (new_ & MU_LONG_WAIT) != 0) viol |= V_LONG_KEEP;
		g->longw_set = 0;
	}
	if ((old & MU_LONG_WAIT) == 0 && (new_ & MU_LONG_WAIT) != 0) g->longw_set = 1;
	/* C02 H2: a woken waiter clears MU_DESIG_WAKER in the very step in which it acquires or re-enqueues */
	if (was_waited && old_hold == VP_NONE && (acq_lock || acq_spin) && (new_ & MU_DESIG_WAKER) != 0) viol |= V_DESIG_H2;
	/* C02 H1a: MU_DESIG_WAKER is set only by a lock holder in the step that takes the spinlock */
	if ((old & MU_DESIG_WAKER) == 0 && (new_ & MU_DESIG_WAKER) != 0) {
		if (!(acq_spin && old_hold != VP_NONE)) viol |= V_DESIG_SET;
		g->set_desig = 1;
	}
	/* C06: MU_ALL_FALSE is set only by a step of the spinlock owner; a writer's release never leaves it set
	   unless that writer owns the spinlock (it is then the scanning thread of unlock_slow) */
	if ((old & MU_ALL_FALSE) == 0 && (new_ & MU_ALL_FALSE) != 0 && !had_spin) viol |= V_ALLFALSE;
	/* C06: the critical section a writer is leaving may have made conditions true: its release clears MU_ALL_FALSE
	   (unless it is the scanning thread, which owns the spinlock, or the release is nsync_mu_unlock_without_wakeup) */
	if (rel_lock && old_hold == VP_WRITER && g->hold == VP_NONE && !had_spin && !acq_spin && !g->no_wakeup_ctx &&
	    (new_ & MU_ALL_FALSE) != 0) viol |= V_ALLFALSE_W;
	/* C02/C06: a thread that takes the queue spinlock in order to ADD a waiter (every taker except the scanning thread of
	   nsync_mu_unlock_slow_, which sets MU_DESIG_WAKER in that step or has set it, a timed-out waiter dequeuing itself, which acquires
	   the lock in the same step, and an observer) clears MU_ALL_FALSE in that step: the new waiter has not been examined, and a
	   reader's release would otherwise skip the wake-up */
	if (acq_spin && !acq_lock && !g->observer && !g->set_desig && !g->scan_ctx && !((old & MU_DESIG_WAKER) == 0 && (new_ & MU_DESIG_WAKER) != 0) &&
	    (new_ & MU_WAITING) != 0 && (new_ & MU_ALL_FALSE) != 0) viol |= V_ENQ_ALLF;
	/* C02/C06: a release that leaves the mutex FREE while threads are queued and nobody is designated to wake them must take the wake-up
	   path, i.e. take the queue spinlock in that step; the only licence to skip it is MU_ALL_FALSE, for a reader's release and for
	   nsync_mu_unlock_without_wakeup */
	if (rel_lock && g->hold == VP_NONE && nL == 0 && !had_spin && !acq_spin && (old & MU_WAITING) != 0 && (old & MU_DESIG_WAKER) == 0 &&
	    !((old & MU_ALL_FALSE) != 0 && (old_hold == VP_READER || g->no_wakeup_ctx))) viol |= V_REL_NOWAKE;
	/* enqueue bookkeeping (C14 L1 is asserted by the harness of lock_slow from these) */
	if (acq_spin && old_hold == VP_NONE && !acq_lock) {
		/* C14 L1: a waiter that was woken LONG_WAIT_THRESHOLD times and lost sets MU_LONG_WAIT when it re-enqueues */
		if (g->l1_check && g->enq_count >= LONG_WAIT_THRESHOLD && (new_ & MU_LONG_WAIT) == 0) viol |= V_LONG_L1;
		g->enq_count++;
		g->enq_long = (new_ & MU_LONG_WAIT) != 0;
	}
	if (acq_lock && old_hold == VP_NONE) {
		/* (a timed-out waiter that takes lock AND spinlock in one step does so in order to dequeue itself) */
		if (g->queued && !acq_spin) viol |= V_QUEUED;
		g->waited = 0;   /* no longer a waiter */
	}
	/* C02 H1: the thread that set MU_DESIG_WAKER either clears it again when it releases the spinlock, or wakes a waiter (checked
	   as a postcondition of nsync_mu_unlock_slow_ from this ghost) */
	if (rel_spin && g->set_desig) g->released_with_desig = (new_ & MU_DESIG_WAKER) != 0;   /* (recomputed at every release: the last one counts) */
	/* C02 H4: the queue spinlock is released with MU_WAITING set whenever the queue is left non-empty */
	if (rel_spin && g->h4_check && vp_reg.mu_word != NULL && ((nsync_mu *) vp_reg.mu_word)->waiters != NULL &&
	    (old & MU_WAITING) != 0 && (new_ & MU_WAITING) == 0) viol |= V_H4;
	/* C16: a pure observer may take and release the spinlock and nothing else */
	if (g->observer && ((old ^ new_) & ~MU_SPINLOCK) != 0) viol |= V_OBSERVER;
	g->last_new = new_;
	return viol;
}

/* projection of J on this thread's ghost */
int vp_mu_inv_g (uint32_t w, const struct vp_mu_ghost *g) {
	if ((w & MU_WLOCK) != 0 && (w & MU_RLOCK_FIELD) != 0) return 0;
	if (g->hold == VP_WRITER && !((w & MU_WLOCK) != 0)) return 0;
	if (g->hold == VP_READER && !((w & MU_WLOCK) == 0 && (w & MU_RLOCK_FIELD) != 0)) return 0;
	if (g->spin && (w & MU_SPINLOCK) == 0) return 0;
	return 1;
}
int vp_mu_inv_me (uint32_t w) { return vp_mu_inv_g (w, &vp_g); }

/* the rely: what other threads may have done to the word since my last step */
int vp_mu_rely (uint32_t before, uint32_t after, const struct vp_mu_ghost *g) {
	if (!vp_mu_inv_g (after, g)) return 0;
	/* holding the write lock AND the spinlock freezes the word (every transition open to a thread that
	   holds neither needs one of them to be free: G clauses LOCKBITS, SPIN, QUIET, WAITING) */
	if (g->hold == VP_WRITER && g->spin && after != before) return 0;
	/* the spinlock protects MU_WAITING and MU_CONDITION */
	if (g->spin && ((before ^ after) & (MU_WAITING | MU_CONDITION)) != 0) return 0;
	/* fewer than 2^24-1 threads: the reader count does not wrap */
	if ((after & MU_RLOCK_FIELD) == MU_RLOCK_FIELD) return 0;
	return 1;
}

static void mu_check (unsigned viol) {
	VP_ASSERT (!(viol & V_LOCKBITS), "C01: lock-bit transition allowed for this thread's hold (writer exclusion / reader sharing)");
	VP_ASSERT (!(viol & V_SPIN_SET), "C01/C02: the queue spinlock is taken only when free");
	VP_ASSERT (!(viol & V_SPIN_CLR), "C01/C02: only its owner releases the queue spinlock");
	VP_ASSERT (!(viol & V_QUIET), "C01/C16: a step that neither acquires nor releases changes nothing but MU_WRITER_WAITING (spinlock free)");
	VP_ASSERT (!(viol & V_WAITING), "C02: MU_WAITING / MU_CONDITION change only under the queue spinlock");
	VP_ASSERT (!(viol & V_ORDER_ACQ), "C03: acquiring transition has acquire order");
	VP_ASSERT (!(viol & V_ORDER_REL), "C03: releasing transition has release order");
	VP_ASSERT (!(viol & V_LONG_BARGE), "C14: a thread that has not waited cannot acquire while MU_LONG_WAIT is set");
	VP_ASSERT (!(viol & V_RD_BARGE), "C14: a reader that has not waited cannot acquire while a writer is waiting");
	VP_ASSERT (!(viol & V_LONG_CLEAR), "C14: MU_LONG_WAIT is cleared only by the acquisition of a thread that has waited");
	VP_ASSERT (!(viol & V_DESIG_H2), "C02: a woken waiter clears MU_DESIG_WAKER when it acquires or goes back to sleep");
	VP_ASSERT (!(viol & V_DESIG_SET), "C02: MU_DESIG_WAKER is set only by a lock holder together with taking the spinlock");
	VP_ASSERT (!(viol & V_ALLFALSE), "C06: MU_ALL_FALSE is set only under the queue spinlock");
	VP_ASSERT (!(viol & V_ALLFALSE_W), "C06: a writer's release (nsync_mu_unlock) clears MU_ALL_FALSE, because its critical section may have made conditions true");
	VP_ASSERT (!(viol & V_LONG_KEEP), "C02/C14: the thread that raised MU_LONG_WAIT clears it in the step in which it acquires (otherwise no thread that has not waited can ever acquire the free mutex)");
	VP_ASSERT (!(viol & V_ENQ_ALLF), "C02/C06: whoever takes the queue spinlock to add a waiter clears MU_ALL_FALSE (the new waiter has not been examined; a reader's release would skip its wake-up)");
	VP_ASSERT (!(viol & V_REL_NOWAKE), "C02/C06: a release that leaves the mutex free while threads are queued and no waker is designated takes the wake-up path (unless MU_ALL_FALSE licenses a reader or nsync_mu_unlock_without_wakeup to skip it)");
	VP_ASSERT (!(viol & V_LONG_L1), "C14: a waiter woken LONG_WAIT_THRESHOLD times sets MU_LONG_WAIT when it goes back to sleep");
	VP_ASSERT (!(viol & V_QUEUED), "C03: a queued waiter re-acquires only after observing its wake-up with an acquire load, or after dequeuing itself");
	VP_ASSERT (!(viol & V_H4), "C02: MU_WAITING is not cleared while waiters remain queued (nobody sleeps on a mutex that looks uncontended)");
	VP_ASSERT (!(viol & V_OBSERVER), "C16: an observer changes nothing but the spinlock bit");
}

/* VP_SEQUENTIAL (bounded queue-content groups only): no other thread acts during the call; the initial state is still arbitrary */
static void mu_interfere (nsync_atomic_uint32_ *p) {
#ifdef VP_SEQUENTIAL
	(void) p; return;
#endif
	uint32_t before = *p;
	uint32_t after = vp_nondet_u32 ();
	VP_ASSUME (vp_mu_rely (before, after, &vp_g));
	*p = after;
}

static void mu_access (void) {
	VP_ASSERT (!vp_g.dead, "C13: no access to the mutex after the releasing step");
}
static void mu_after (void) {
	if (vp_g.release_ctx && vp_g.hold == VP_NONE && !vp_g.spin) {
		vp_g.dead = 1;   /* from here on another thread may acquire, find it is the last user, and free the mutex */
	}
}

static int mu_cas (nsync_atomic_uint32_ *p, uint32_t o, uint32_t n, int order) {
	mu_access ();
	mu_interfere (p);
	if (*p != o) return 0;
	mu_check (vp_mu_step (o, n, &vp_g, order));
	*p = n;
	mu_after ();
	return 1;
}
static uint32_t mu_load (nsync_atomic_uint32_ *p, int order) {
	(void) order;
	mu_access ();
	mu_interfere (p);
	return *p;
}
static void mu_store (nsync_atomic_uint32_ *p, uint32_t v, int order) {
	mu_access ();
	mu_interfere (p);
	/* a plain store replaces whatever the other threads left there */
	mu_check (vp_mu_step (*p, v, &vp_g, order));
	*p = v;
	mu_after ();
}

void vp_mu_init_ghost (int hold, int spin, int waited) {
	struct vp_mu_ghost z = {0};
	vp_tags_init ();
	vp_g = z;
	vp_g.hold = hold; vp_g.spin = spin; vp_g.waited = waited;
}
uint32_t vp_mu_any_word (void) {
	uint32_t w = vp_nondet_u32 ();
	VP_ASSUME (vp_mu_rely (w, w, &vp_g));
	return w;
}

/* ------------------------------------------------------------------ */
/* This thread's own waiting flag (set to 1 by me before I queue myself,
   cleared to 0 by whoever dequeues me: a waker, or myself on timeout).   */
static uint32_t waiting_load (nsync_atomic_uint32_ *p, int order) {
	/* rely: others only ever clear it - and, for a cv waiter, only after having unlinked the record */
#ifdef VP_RG_CV
	if (*p != 0 && (!vp_cvg.in_wait || vp_cvg.unlinked_by_other) && vp_nondet_bool ()) *p = 0;
#else
	if (*p != 0 && vp_nondet_bool ()) *p = 0;
#endif
	if (*p == 0 && vp_g.queued && (order == VP_ACQ || order == VP_ACQREL)) {
		vp_g.queued = 0;     /* wake-up observed with acquire order */
		vp_g.waited = 1;     /* ... of a wait on the mutex's queue */
#ifdef VP_RG_CV
		if (vp_cvg.in_wait && vp_my_w.cv_mu != NULL) vp_g.waited = 0;   /* woken from the cv itself: has not waited on the mutex */
#endif
	}
	return *p;
}
static void waiting_store (nsync_atomic_uint32_ *p, uint32_t v, int order) {
	(void) order;
	if (v != 0) {
		vp_g.queued = 1;     /* about to queue myself */
	} else {
		vp_g.queued = 0;     /* I dequeued myself (timeout / cancellation path) */
	}
	*p = v;
}

#ifdef VP_RG_MU
int vp_condition (const void *arg) {
	(void) arg;
	VP_ASSERT (vp_g.hold != VP_NONE, "C06: a condition is only ever evaluated by a thread that holds the mutex");
	vp_g.cond_evals++;
	vp_g.last_cond = vp_nondet_bool ();
	return vp_g.last_cond;
}
#endif

/* ------------------------------------------------------------------ */
/* dispatch                                                             */

#ifdef VP_RG_SEM
int vp_sem_cas (nsync_atomic_uint32_ *p, uint32_t o, uint32_t n, int order);
uint32_t vp_sem_load (nsync_atomic_uint32_ *p, int order);
void vp_sem_store (nsync_atomic_uint32_ *p, uint32_t v, int order);
#define VP_SEM_CAS(p,o,n,order) if ((p) == vp_reg.sem_word) return vp_sem_cas ((p), (o), (n), (order))
#define VP_SEM_LOAD(p,order) if ((p) == vp_reg.sem_word) return vp_sem_load ((p), (order))
#define VP_SEM_STORE(p,v,order) if ((p) == vp_reg.sem_word) { vp_sem_store ((p), (v), (order)); return; }
#else
#define VP_SEM_CAS(p,o,n,order)
#define VP_SEM_LOAD(p,order)
#define VP_SEM_STORE(p,v,order)
#endif

#ifdef VP_RG_MU
#define VP_MU_CAS(p,o,n,order) if ((p) == vp_reg.mu_word) return mu_cas ((p), (o), (n), (order))
#define VP_MU_LOAD(p,order) if ((p) == vp_reg.mu_word) return mu_load ((p), (order)); if ((p) == vp_reg.my_waiting) return waiting_load ((p), (order))
#define VP_MU_STORE(p,v,order) if ((p) == vp_reg.mu_word) { mu_store ((p), (v), (order)); return; } if ((p) == vp_reg.my_waiting) { waiting_store ((p), (v), (order)); return; }
#else
#define VP_MU_CAS(p,o,n,order)
#define VP_MU_LOAD(p,order)
#define VP_MU_STORE(p,v,order)
#endif

#ifdef VP_RG_ONCE
int vp_once_cas (nsync_atomic_uint32_ *p, uint32_t o, uint32_t n, int order);
uint32_t vp_once_load (nsync_atomic_uint32_ *p, int order);
void vp_once_store (nsync_atomic_uint32_ *p, uint32_t v, int order);
#define VP_ONCE_CAS(p,o,n,order) if ((p) == vp_reg.once_word) return vp_once_cas ((p), (o), (n), (order))
#define VP_ONCE_LOAD(p,order) if ((p) == vp_reg.once_word) return vp_once_load ((p), (order))
#define VP_ONCE_STORE(p,v,order) if ((p) == vp_reg.once_word) { vp_once_store ((p), (v), (order)); return; }
#else
#define VP_ONCE_CAS(p,o,n,order)
#define VP_ONCE_LOAD(p,order)
#define VP_ONCE_STORE(p,v,order)
#endif

#ifdef VP_RG_CNT
#include "vp_cnt.h"
int vp_cnt_cas (nsync_atomic_uint32_ *p, uint32_t o, uint32_t n, int order);
uint32_t vp_cnt_load (nsync_atomic_uint32_ *p, int order);
void vp_cnt_store (nsync_atomic_uint32_ *p, uint32_t v, int order);
uint32_t vp_cnt_waited_load (nsync_atomic_uint32_ *p, int order);
#define VP_CNT_CAS(p,o,n,order) if ((p) == vp_reg.value_word) return vp_cnt_cas ((p), (o), (n), (order))
#define VP_CNT_LOAD(p,order) if ((p) == vp_reg.value_word) return vp_cnt_load ((p), (order)); if ((p) == vp_c.waited_word) return vp_cnt_waited_load ((p), (order))
#define VP_CNT_STORE(p,v,order) if ((p) == vp_reg.value_word) { vp_cnt_store ((p), (v), (order)); return; } if ((p) == vp_c.waited_word) { *(p) = (v); return; }
#else
#define VP_CNT_CAS(p,o,n,order)
#define VP_CNT_LOAD(p,order)
#define VP_CNT_STORE(p,v,order)
#endif

#ifdef VP_RG_NOTE
#include "vp_note.h"
uint32_t vp_note_load (int i, nsync_atomic_uint32_ *p, int order);
void vp_note_store (int i, nsync_atomic_uint32_ *p, uint32_t v, int order);
int vp_note_cas (int i, nsync_atomic_uint32_ *p, uint32_t o, uint32_t n, int order);
#define VP_NOTE_CAS(p,o,n,order) { int ni_ = vp_note_index (p); if (ni_ >= 0) return vp_note_cas (ni_, (p), (o), (n), (order)); }
#define VP_NOTE_LOAD(p,order) { int ni_ = vp_note_index (p); if (ni_ >= 0) return vp_note_load (ni_, (p), (order)); }
#define VP_NOTE_STORE(p,v,order) { int ni_ = vp_note_index (p); if (ni_ >= 0) { vp_note_store (ni_, (p), (v), (order)); return; } }
#else
#define VP_NOTE_CAS(p,o,n,order)
#define VP_NOTE_LOAD(p,order)
#define VP_NOTE_STORE(p,v,order)
#endif

/* ------------------------------------------------------------------ */
/* Waiting flags of OTHER threads' waiter records, as seen by a waker: the
   hand-off is "unlink, store waiting = 0 with release order, post the
   semaphore", in that order.  The records are the abstract queue's foreign
   record vp_fw or harness-registered records. */
struct vp_waker_ghost vp_wk;
#ifdef VP_RG_WAKER
#ifdef VP_WK_LOCKED
#include "vp_amu.h"
#endif
#define VP_IS_REC(i) (vp_wk.rec[i] != NULL && p == &vp_wk.rec[i]->waiting)
static int is_foreign_waiting (nsync_atomic_uint32_ *p) {   /* (no loop: VP_WK_MAX == 4) */
#ifdef VP_TWO_RECORDS
	if (p == &vp_fw2.nw.waiting) return 1;
#endif
	return p == &vp_fw.nw.waiting || VP_IS_REC (0) || VP_IS_REC (1) || VP_IS_REC (2) || VP_IS_REC (3);
}
static void foreign_waiting_store (nsync_atomic_uint32_ *p, uint32_t v, int order) {
	if (v == 0) {
		VP_ASSERT (order == VP_REL || order == VP_ACQREL, "C03: a waker clears the waiter's waiting flag with release order");
#ifdef VP_WK_LOCKED
		if (vp_wk.lock != NULL) VP_ASSERT (vp_amu_held (vp_wk.lock), "C13: the waker clears the waiter's flag while holding the lock that the waiter's dequeue takes");
#endif
		vp_wk.cleared++;
		vp_wk.pending = 1;          /* flag cleared, semaphore not yet posted */
		vp_wk.last_cleared = p;
	}
	*p = v;
}
#define VP_WK_STORE(p,v,order) if (is_foreign_waiting (p)) { foreign_waiting_store ((p), (v), (order)); return; }
#else
#define VP_WK_STORE(p,v,order)
#endif

/* ------------------------------------------------------------------ */
/* The condition variable's word: CV_SPINLOCK protects the waiter list and CV_NON_EMPTY.
   G: the spinlock is taken only when free, by a CAS with acquire order (CV_NON_EMPTY may be set in the same step);
      it is released only by its owner, by a store with release order of a value without the spinlock bit;
      nothing else ever writes the word.
   R: while I own the spinlock the word does not change; otherwise anything. */
struct vp_cv_ghost vp_cvg;
#ifdef VP_RG_CV
static void cv_interfere (nsync_atomic_uint32_ *p) {
#ifdef VP_SEQUENTIAL
	(void) p; return;
#endif
	uint32_t before = *p, after = vp_nondet_u32 ();
	VP_ASSUME ((after & ~(CV_SPINLOCK | CV_NON_EMPTY)) == 0);
	if (vp_cvg.spin) VP_ASSUME (after == before);
	*p = after;
}
static int cv_cas (nsync_atomic_uint32_ *p, uint32_t o, uint32_t n, int order) {
	cv_interfere (p);
	if (*p != o) return 0;
	VP_ASSERT ((o & CV_SPINLOCK) == 0 && (n & CV_SPINLOCK) != 0 && !vp_cvg.spin, "C04: the cv word is changed by compare-and-swap only to take its free spinlock");
	VP_ASSERT (((o ^ n) & ~(CV_SPINLOCK | CV_NON_EMPTY)) == 0 && ((o & CV_NON_EMPTY) == 0 || (n & CV_NON_EMPTY) != 0), "C04: taking the cv spinlock may set CV_NON_EMPTY and changes nothing else");
	VP_ASSERT (order == VP_ACQ || order == VP_ACQREL, "C03: taking the cv spinlock is an acquire");
	/* J (cv): whenever the spinlock is free, CV_NON_EMPTY clear implies an empty queue - re-established by every releasing store (asserted in cv_store) */
	VP_ASSUME ((o & CV_NON_EMPTY) != 0 || ((nsync_cv *) ((char *) p - offsetof (nsync_cv, word)))->waiters == NULL);
	vp_cvg.spin = 1;
	*p = n;
	return 1;
}
static uint32_t cv_load (nsync_atomic_uint32_ *p, int order) { (void) order; cv_interfere (p); return *p; }
static void cv_store (nsync_atomic_uint32_ *p, uint32_t v, int order) {
	cv_interfere (p);
	VP_ASSERT (vp_cvg.spin, "C04: the cv word is stored only by the owner of its spinlock");
	VP_ASSERT ((v & CV_SPINLOCK) == 0 && (v & ~(CV_SPINLOCK | CV_NON_EMPTY)) == 0, "C04/C16: the owner's store releases the cv spinlock");
	VP_ASSERT (!vp_g.observer || (v & CV_NON_EMPTY) == (*p & CV_NON_EMPTY), "C16: an observer changes nothing but the cv spinlock bit");
	VP_ASSERT ((v & CV_NON_EMPTY) != 0 || ((nsync_cv *) ((char *) p - offsetof (nsync_cv, word)))->waiters == NULL,
		   "C04: CV_NON_EMPTY is cleared only when the cv queue is empty (later wake-ups must not take the empty fast path while waiters remain)");
	VP_ASSERT (order == VP_REL || order == VP_ACQREL, "C03: releasing the cv spinlock is a release");
	if (vp_cvg.in_wait && (v & CV_NON_EMPTY) != 0 && !vp_cvg.self_dequeued) vp_cvg.enq_done = 1;
	vp_cvg.spin = 0;
	vp_cvg.sections++;
	*p = v;
}
/* remove_count of this thread's waiter record: incremented, under the cv spinlock, by whoever unlinks the record */
/* environment step, possible before EVERY atomic step of this thread: a waker (cv signal / broadcast), holding the cv spinlock,
   unlinks this thread's record from the cv queue: remove_count moves, and the record may be transferred to the mutex's queue */
static void cv_env_step (void) {
#ifdef VP_SEQUENTIAL
	return;
#endif
	if (vp_cvg.in_wait && vp_cvg.my_remove_count != NULL && vp_cvg.enq_done && !vp_cvg.spin && !vp_cvg.unlinked_by_other &&
	    !vp_cvg.self_dequeued && vp_g.queued && vp_nondet_bool ()) {
		*vp_cvg.my_remove_count = *vp_cvg.my_remove_count + 1u;
		vp_cvg.unlinked_by_other = 1;
		if (vp_nondet_bool ()) vp_my_w.cv_mu = NULL;
	}
}
static uint32_t rc_load (nsync_atomic_uint32_ *p, int order) { (void) order; return *p; }
static int rc_cas (nsync_atomic_uint32_ *p, uint32_t o, uint32_t n, int order) {
	(void) order;
	(void) rc_load (p, VP_RLX);
	if (*p != o) return 0;
	VP_ASSERT (vp_cvg.spin && n == o + 1u, "C04: remove_count is incremented only under the cv spinlock, by one");
	vp_cvg.self_dequeued = 1;
	*p = n;
	return 1;
}
#define VP_CV_ENV() cv_env_step ()
#define VP_CV_CAS(p,o,n,order) if ((p) == vp_reg.cv_word) return cv_cas ((p), (o), (n), (order)); if ((p) == vp_cvg.my_remove_count) return rc_cas ((p), (o), (n), (order))
#define VP_CV_LOAD(p,order) if ((p) == vp_reg.cv_word) return cv_load ((p), (order)); if ((p) == vp_cvg.my_remove_count) return rc_load ((p), (order))
#define VP_CV_STORE(p,v,order) if ((p) == vp_reg.cv_word) { cv_store ((p), (v), (order)); return; }
#else
#define VP_CV_ENV()
#define VP_CV_CAS(p,o,n,order)
#define VP_CV_LOAD(p,order)
#define VP_CV_STORE(p,v,order)
#endif

void vp_reg_clear (void) {
	vp_reg.mu_word = NULL; vp_reg.my_waiting = NULL; vp_reg.cv_word = NULL; vp_reg.once_word = NULL;
	vp_reg.sem_word = NULL; vp_reg.value_word = NULL; vp_reg.notified_word = NULL;
	vp_cvg.spin = 0; vp_cvg.in_wait = 0; vp_cvg.enq_done = 0; vp_cvg.unlinked_by_other = 0; vp_cvg.self_dequeued = 0; vp_cvg.sections = 0;
	vp_cvg.my_remove_count = NULL;
	vp_wk.rec[0] = NULL; vp_wk.rec[1] = NULL; vp_wk.rec[2] = NULL; vp_wk.rec[3] = NULL;
	vp_wk.cleared = 0; vp_wk.posted = 0; vp_wk.pending = 0; vp_wk.last_cleared = NULL; vp_wk.lock = NULL;
}

int vp_cas (nsync_atomic_uint32_ *p, uint32_t o, uint32_t n, int order) {
	VP_CV_ENV ();
	VP_MU_CAS (p, o, n, order);
	VP_SEM_CAS (p, o, n, order);
	VP_ONCE_CAS (p, o, n, order);
	VP_CNT_CAS (p, o, n, order);
	VP_CV_CAS (p, o, n, order);
	VP_NOTE_CAS (p, o, n, order);
#ifndef VP_SEQUENTIAL
	if (p != vp_reg.my_waiting) *p = vp_nondet_u32 ();   /* unregistered: any environment */
#endif
	if (*p != o) return 0;
	*p = n;
	return 1;
}
uint32_t vp_load (nsync_atomic_uint32_ *p, int order) {
	VP_CV_ENV ();
	VP_MU_LOAD (p, order);
	VP_SEM_LOAD (p, order);
	VP_ONCE_LOAD (p, order);
	VP_CNT_LOAD (p, order);
	VP_CV_LOAD (p, order);
	VP_NOTE_LOAD (p, order);
#ifndef VP_SEQUENTIAL
	*p = vp_nondet_u32 ();
#endif
	return *p;
}
void vp_store (nsync_atomic_uint32_ *p, uint32_t v, int order) {
	VP_CV_ENV ();
	VP_MU_STORE (p, v, order);
	VP_SEM_STORE (p, v, order);
	VP_ONCE_STORE (p, v, order);
	VP_CNT_STORE (p, v, order);
	VP_CV_STORE (p, v, order);
	VP_NOTE_STORE (p, v, order);
	VP_WK_STORE (p, v, order);
	*p = v;
}
