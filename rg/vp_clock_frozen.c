/* VP-ASSUMED: (bounded sequential groups only) the clock stands still at 1 s after the epoch during the scenario: no deadline expires while the scenario runs */
#include "vp_clock.h"
struct vp_clock_ghost vp_clk;
void vp_clock_reset (void) { vp_clk.valid = 0; vp_clk.reads = 0; vp_clk.last.tv_sec = 0; vp_clk.last.tv_nsec = 0; }
int clock_gettime (clockid_t clk, struct timespec *ts) {
	(void) clk;
	ts->tv_sec = 1; ts->tv_nsec = 0;
	vp_clk.last = *ts; vp_clk.valid = 1;
	return 0;
}
