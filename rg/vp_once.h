#ifndef VP_ONCE_H_
#define VP_ONCE_H_
#include "vp_amu.h"
struct vp_once_ghost {
	int winner;         /* this thread made the transition 0 -> 1 */
	unsigned runs;      /* number of times this thread ran the once-function */
	int stored_done;    /* this thread stored 2 */
	int saw_done_acq;   /* an acquire load by this thread returned 2 */
	int first_load_valid;
	uint32_t first_load; /* value returned by this thread's first load */
};
extern struct vp_once_ghost vp_o;
void vp_once_init_ghost (void);
void vp_once_f (void);
void vp_once_farg (void *arg);
#endif
