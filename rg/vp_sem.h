/* Ghost state and assumed kernel contract for the futex semaphore (C12, C15). */
#ifndef VP_SEM_H_
#define VP_SEM_H_
#include "vp_rg.h"
#include "vp_clock.h"
struct vp_sem_ghost {
	int role;              /* 0: the (single) waiter of this per-thread semaphore; 1: a poster */
	int no_posts;          /* rely refinement for the C15 "prompt" group: nobody posts during the call */
	int kernel_prompt;     /* assumed kernel contract: an already expired absolute timeout yields ETIMEDOUT at once */
	unsigned taken;        /* successful decrements by this thread */
	unsigned posted;       /* successful increments by this thread */
	int last_load_valid;
	uint32_t last_load;    /* value returned by this thread's last load of the count */
	int futex_timedout;    /* the last FUTEX_WAIT reported ETIMEDOUT */
	unsigned waits;        /* FUTEX_WAIT calls */
	unsigned wakes;        /* FUTEX_WAKE calls */
	int wake_after_post;   /* every FUTEX_WAKE so far came after this thread's increment */
	unsigned reads_at_timeout;  /* vp_clk.reads when the last futex ETIMEDOUT was reported */
	int finite_deadline;   /* C15: the call in progress was given a deadline other than nsync_time_no_deadline (set by the harness) */
};
extern struct vp_sem_ghost vp_s;
extern int vp_errno;     /* errno of this thread (glibc: *__errno_location ()) */
void vp_sem_init_ghost (int role);
#endif
