/* The 'notified' flag of a note under rely/guarantee (C08).
   G: the flag only ever goes 0 -> 1, by a store of 1 with release order, made while holding that note's note_mu.
   R: other threads may set it (0 -> 1) at any time; nobody ever clears it. */
#include "vp_note.h"
struct vp_note_ghost vp_nt;
#define VP_NT_CLR(i) vp_nt.note[i] = NULL; vp_nt.seen_set[i] = 0; vp_nt.set_by_me[i] = 0; vp_nt.private_[i] = 0
void vp_note_reset (void) {
	VP_NT_CLR (0); VP_NT_CLR (1); VP_NT_CLR (2); VP_NT_CLR (3);
	vp_nt.notify_calls = 0;
}
#define VP_NT_IS(i) if (vp_nt.note[i] != NULL && p == &vp_nt.note[i]->notified) return i
int vp_note_index (nsync_atomic_uint32_ *p) {   /* (no loop: VP_NT_MAX == 4) */
	VP_NT_IS (0); VP_NT_IS (1); VP_NT_IS (2); VP_NT_IS (3);
	return -1;
}
static void flag_interfere (int i, nsync_atomic_uint32_ *p) {
#ifdef VP_SEQUENTIAL
	(void) i; (void) p; return;
#endif
	/* another thread may notify this note - but only while holding its note_mu, i.e. not while I hold it */
	if (*p == 0 && !vp_nt.private_[i] && !vp_amu_held (&vp_nt.note[i]->note_mu) && vp_nondet_bool ()) *p = 1;
}
uint32_t vp_note_load (int i, nsync_atomic_uint32_ *p, int order) {
	flag_interfere (i, p);
	VP_ASSERT (*p <= 1u, "VP-AUX: notified flag is 0 or 1");
	if (*p != 0 && (order == VP_ACQ || order == VP_ACQREL)) vp_nt.seen_set[i] = 1;
	return *p;
}
void vp_note_store (int i, nsync_atomic_uint32_ *p, uint32_t v, int order) {
	flag_interfere (i, p);
	VP_ASSERT (v == 1u, "C08: the notified flag is only ever set (one-way flag)");
	VP_ASSERT (order == VP_REL || order == VP_ACQREL, "C03: notifying a note is a release");
	VP_ASSERT (vp_amu_held (&vp_nt.note[i]->note_mu), "C08: a note is marked notified only under its own lock");
	vp_nt.set_by_me[i] = 1; vp_nt.seen_set[i] = 1;
	*p = v;
}
int vp_note_cas (int i, nsync_atomic_uint32_ *p, uint32_t o, uint32_t n, int order) {
	(void) i; (void) o; (void) n; (void) order;
	VP_ASSERT (0, "C08: the notified flag is never modified by compare-and-swap");
	return *p == o;
}
