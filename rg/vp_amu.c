#include "vp_amu.h"
struct vp_amu_state vp_amu;
void (*vp_amu_wait_env) (nsync_mu *mu, const void *arg);
void vp_amu_reset (void) {
	vp_amu.addr[0] = NULL; vp_amu.addr[1] = NULL; vp_amu.addr[2] = NULL; vp_amu.addr[3] = NULL;
	vp_amu.held[0] = 0; vp_amu.held[1] = 0; vp_amu.held[2] = 0; vp_amu.held[3] = 0;
	vp_amu.lock_calls = 0; vp_amu.unlock_calls = 0; vp_amu.cv_waits = 0; vp_amu.cv_broadcasts = 0;
	vp_amu_wait_env = NULL;
}
#define VP_REG_SLOT(i) if (vp_amu.addr[i] == NULL) { vp_amu.addr[i] = mu; vp_amu.held[i] = held; return; }
void vp_amu_register (const void *mu, int held) {
	VP_REG_SLOT (0) VP_REG_SLOT (1) VP_REG_SLOT (2) VP_REG_SLOT (3)
	VP_ASSERT (0, "VP-AUX: abstract mutex table full");
}
static int idx (const void *mu) {   /* (no loop: VP_AMU_MAX == 4) */
	if (vp_amu.addr[0] == mu) return 0;
	if (vp_amu.addr[1] == mu) return 1;
	if (vp_amu.addr[2] == mu) return 2;
	if (vp_amu.addr[3] == mu) return 3;
	VP_ASSERT (0, "VP-AUX: mutex not registered with the abstract mutex table");
	return 0;
}
int vp_amu_held (const void *mu) { return vp_amu.held[idx (mu)]; }

#ifdef VP_ABSTRACT_MU
/* VP-ASSUMED: nsync_mu_lock/unlock/trylock used by once.c, counter.c, note.c, sem_wait.c obey the ghost contract proved under C01 (lock: not held by me before, held exclusively after; unlock: held before, not after) */
void nsync_mu_lock (nsync_mu *mu) {
	int i = idx (mu);
	VP_ASSERT (!vp_amu.held[i], "C01 client: nsync_mu_lock on a mutex this thread already holds (self-deadlock)");
	vp_amu.held[i] = 1;
	vp_amu.lock_calls++;
}
void nsync_mu_unlock (nsync_mu *mu) {
	int i = idx (mu);
	VP_ASSERT (vp_amu.held[i], "C01 client: nsync_mu_unlock of a mutex this thread does not hold");
	vp_amu.held[i] = 0;
	vp_amu.unlock_calls++;
}
int nsync_mu_trylock (nsync_mu *mu) {
	int i = idx (mu);
	VP_ASSERT (!vp_amu.held[i], "C01 client: nsync_mu_trylock on a mutex this thread already holds");
	if (vp_nondet_bool ()) { vp_amu.held[i] = 1; return 1; }
	return 0;
}
/* VP-ASSUMED: nsync_mu_wait (conditional critical section, C05/C06): returns holding the mutex with the condition true; while it waits other threads may change the state the mutex protects (modelled by the caller-supplied vp_amu_wait_env hook) */
void nsync_mu_wait (nsync_mu *mu, int (*condition) (const void *condition_arg), const void *condition_arg,
		    int (*condition_arg_eq) (const void *a, const void *b)) {
	(void) condition_arg_eq;
	VP_ASSERT (vp_amu.held[idx (mu)], "C06 client: nsync_mu_wait requires the mutex held");
	if (!(*condition) (condition_arg)) {
		vp_amu.cv_waits++;
		if (vp_amu_wait_env != NULL) (*vp_amu_wait_env) (mu, condition_arg);
		VP_ASSUME ((*condition) (condition_arg));
	}
}
/* VP-ASSUMED: nsync_cv_broadcast / nsync_cv_wait_with_deadline used by once.c: wait returns holding the mutex it was given (C05), any result */
void nsync_cv_broadcast (nsync_cv *cv) { (void) cv; vp_amu.cv_broadcasts++; }
int nsync_cv_wait_with_deadline (nsync_cv *cv, nsync_mu *mu, nsync_time abs_deadline, nsync_note cancel_note) {
	(void) cv; (void) abs_deadline; (void) cancel_note;
	VP_ASSERT (vp_amu.held[idx (mu)], "C05 client: nsync_cv_wait_with_deadline requires the mutex held");
	vp_amu.cv_waits++;
	return vp_nondet_bool () ? ETIMEDOUT : 0;
}
#endif
