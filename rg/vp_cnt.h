#ifndef VP_CNT_H_
#define VP_CNT_H_
#include "vp_amu.h"
struct vp_cnt_ghost {
	const void *mu;          /* the counter's lock (registered with the abstract mutex table) */
	nsync_atomic_uint32_ *waited_word;
	int fresh;               /* the counter object is not yet shared (constructor) */
	unsigned cas_count;      /* successful CASes on the value by this thread */
	uint32_t cas_old, cas_new;
	int load_valid; uint32_t last_load; int last_load_acq;
	int raising_from_zero;
};
extern struct vp_cnt_ghost vp_c;
void vp_cnt_init_ghost (const void *mu, nsync_atomic_uint32_ *waited_word);
#endif
