/* The counter's value word under rely/guarantee (C10).
   G: a successful CAS on the value is made only by the holder of counter_mu (acq_rel).
   R: while I hold counter_mu the value does not change; otherwise anything.
   Client preconditions (public/nsync_counter.h): the add does not overflow, and
   the count is not raised from zero once a wait has been issued. */
#include "vp_cnt.h"
struct vp_cnt_ghost vp_c;
void vp_cnt_init_ghost (const void *mu, nsync_atomic_uint32_ *waited_word) {
	struct vp_cnt_ghost z = {0};
	vp_tags_init ();
	vp_c = z; vp_c.mu = mu; vp_c.waited_word = waited_word;
}
static void cnt_interfere (nsync_atomic_uint32_ *p) {
	uint32_t before = *p, after = vp_nondet_u32 ();
	if (vp_c.fresh || vp_amu_held (vp_c.mu)) VP_ASSUME (after == before);
	*p = after;
}
int vp_cnt_cas (nsync_atomic_uint32_ *p, uint32_t o, uint32_t n, int order) {
	int32_t delta = (int32_t) (n - o);
	cnt_interfere (p);
	if (*p != o) return 0;
	VP_ASSERT (vp_amu_held (vp_c.mu), "C10: the counter's value is modified only under the counter's lock");
	VP_ASSERT (order == VP_ACQREL, "C03: the counter's value CAS is acquire-release");
	/* client preconditions */
	VP_ASSUME (delta > 0 ? n > o : n < o);                     /* no overflow */
	if (o == 0 && delta > 0) { VP_ASSUME (*vp_c.waited_word == 0); vp_c.raising_from_zero = 1; }
	vp_c.cas_count++; vp_c.cas_old = o; vp_c.cas_new = n;
	*p = n;
	return 1;
}
uint32_t vp_cnt_load (nsync_atomic_uint32_ *p, int order) {
	cnt_interfere (p);
	vp_c.load_valid = 1; vp_c.last_load = *p; vp_c.last_load_acq = (order == VP_ACQ || order == VP_ACQREL);
	return *p;
}
void vp_cnt_store (nsync_atomic_uint32_ *p, uint32_t v, int order) {
	(void) order;
	VP_ASSERT (vp_c.fresh, "C10: the value is stored directly only by the constructor, before the counter is shared");
	*p = v;
}
/* the 'waited' flag: others only ever set it; not while a legal raise from zero is in progress */
uint32_t vp_cnt_waited_load (nsync_atomic_uint32_ *p, int order) {
	(void) order;
	if (*p == 0 && !vp_c.raising_from_zero && !vp_c.fresh && vp_nondet_bool ()) *p = 1;
	return *p;
}
