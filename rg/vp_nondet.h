/* All harness nondeterminism goes through these: cbmc's nondet_* sources in
   proofs (= any value), script-driven in native replay (rg/vp_native.c). */
#ifndef VP_NONDET_H_
#define VP_NONDET_H_
#include <stdint.h>
#ifdef VP_CPROVER
uint32_t nondet_vp_u32 (void);
int32_t nondet_vp_i32 (void);
int64_t nondet_vp_i64 (void);
uint64_t nondet_vp_u64 (void);
_Bool nondet_vp_bool (void);
#define vp_nondet_u32() nondet_vp_u32 ()
#define vp_nondet_i32() nondet_vp_i32 ()
#define vp_nondet_i64() nondet_vp_i64 ()
#define vp_nondet_u64() nondet_vp_u64 ()
#define vp_nondet_bool() ((int) nondet_vp_bool ())
/* reachability canary: MUST FAIL (see vp/runner.py) */
#ifdef VP_NO_CANARY
#define VP_CANARY() ((void) 0)
#else
#define VP_CANARY() __CPROVER_assert (0, "VP-CANARY: harness end reachable")
#endif
#else
uint32_t vp_nondet_u32 (void);
int32_t vp_nondet_i32 (void);
int64_t vp_nondet_i64 (void);
uint64_t vp_nondet_u64 (void);
int vp_nondet_bool (void);
#define VP_CANARY() ((void) 0)
#endif
#endif
